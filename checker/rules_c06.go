package main

import (
	"fmt"
	"go/token"
	"go/types"
	"strings"

	"golang.org/x/tools/go/ssa"
)

// C06 — transfer queue: every added object is accounted for; Add/Wait return.
// (Rules R1..R10 of DESIGN.md §3 C06; R1-R3 are decided together by the loop discipline.)

func init() {
	register(&PropDef{
		ID:    "C06",
		Level: "other",
		Explanation: "Structural necessary conditions of the queue's accounting, decided on the SSA of package tq: the outstanding-object counter (TransferQueue.wait) is decremented, or the object re-queued for retry, or handed to the adapter, exactly once per object on every path of the batch-failure loop, the batch-response loop, the leftovers loop, handleTransferResult, addToAdapter's error path and partitionTransfers (path counting); " +
			"loops that settle objects either range over the requested batch or are guarded by a consume-once lookup in a set built from the batch whose leftovers are settled afterwards (multiplicity provenance); every return that leaves objects unsettled carries a non-retriable error which collectBatches turns into Abort+break; " +
			"decrement/increment sites, watcher sends and channel closes occur only at the enumerated sites (who-may); workers report each job exactly once. This does NOT decide termination under all schedules (liveness needs a model checker).",
		Assumptions: []string{
			"each OID occurs at most once in a batch (Add enqueues only first-seen OIDs; retries re-enter once) — checked by C15.R6",
			"the `!ok` branches after q.transfers lookups are infeasible: the oid was registered by Add before it could be batched (exception rows)",
			"sync.WaitGroup / channel semantics; adapters call no queue methods",
		},
		Run:      runC06,
		Canaries: c06Canaries,
	})
}

type tqModel struct {
	c        *Ctx
	p        *Prog
	enq      *ssa.Function // enqueueAndCollectRetriesFor (discovered: the function that calls Batch and addToAdapter)
	retryFn  *ssa.Function // the counted-retry closure
	htr      *ssa.Function // handleTransferResult
	addAd    *ssa.Function
	collect  *ssa.Function
	noret    NoReturn
	batchPrm *ssa.Parameter
}

func isFieldMethodCall(in ssa.Instruction, typ, field string, methods ...string) bool {
	cc := AsCall(in)
	if cc == nil || cc.IsInvoke() {
		return false
	}
	f := cc.StaticCallee()
	if f == nil || f.Signature.Recv() == nil || len(cc.Args) == 0 {
		return false
	}
	if !nameIn(f.Name(), methods) {
		return false
	}
	t, fl, _, ok := FieldOf(cc.Args[0])
	if ok && t == typ && fl == field {
		return true
	}
	// value receiver spilled: &q.wait passed directly
	if fa, ok := cc.Args[0].(*ssa.FieldAddr); ok {
		t, fl := fieldAddrName(fa)
		return t == typ && fl == field
	}
	return false
}

func isDone(in ssa.Instruction) bool {
	if _, isDefer := in.(*ssa.Defer); isDefer {
		return false
	}
	return isFieldMethodCall(in, "tq.TransferQueue", "wait", "Done")
}

func chanElemName(t types.Type) string {
	if ch, ok := t.Underlying().(*types.Chan); ok {
		return typeName(ch.Elem())
	}
	return ""
}

func isSendOf(in ssa.Instruction, elem string) bool {
	s, ok := in.(*ssa.Send)
	return ok && chanElemName(s.Chan.Type()) == elem
}

func isAppendOf(in ssa.Instruction, elem string) bool {
	c, ok := in.(*ssa.Call)
	if !ok {
		return false
	}
	b, ok := c.Call.Value.(*ssa.Builtin)
	if !ok || b.Name() != "append" {
		return false
	}
	sl, ok := c.Type().Underlying().(*types.Slice)
	return ok && typeName(sl.Elem()) == elem
}

func callsClosure(in ssa.Instruction, fn *ssa.Function) bool {
	cc := AsCall(in)
	if cc == nil || fn == nil {
		return false
	}
	if mc, ok := cc.Value.(*ssa.MakeClosure); ok && mc.Fn == fn {
		return true
	}
	if f, ok := cc.Value.(*ssa.Function); ok && f == fn {
		return true
	}
	return false
}

func hasCallTo(fn *ssa.Function, name string) bool { return len(CallsIn(fn, name)) > 0 }

func newTQModel(c *Ctx) *tqModel {
	p := c.P
	m := &tqModel{c: c, p: p}
	m.noret = func(in ssa.Instruction) bool {
		if cc := AsCall(in); cc != nil {
			switch CalleeName(cc) {
			case "os.Exit", "commands.Exit", "commands.ExitWithError", "commands.Panic", "log.Fatal", "log.Fatalf", "builtin.panic":
				return true
			}
		}
		_, isPanic := in.(*ssa.Panic)
		return isPanic
	}
	tq := p.Pkg("tq")
	if tq == nil {
		c.Missing("R0", "package tq", "package tq not found")
		return nil
	}
	// Discover the anchors semantically.
	for _, fn := range p.RepoFuncs(func(s string) bool { return s == Mod+"/tq" }) {
		if fn.Parent() != nil {
			continue
		}
		if hasCallTo(fn, "tq.Batch") && hasCallTo(fn, "(*tq.TransferQueue).addToAdapter") {
			m.enq = fn
		}
	}
	m.addAd = p.Fn("tq", "(*TransferQueue).addToAdapter")
	m.htr = p.Fn("tq", "(*TransferQueue).handleTransferResult")
	m.collect = p.Fn("tq", "(*TransferQueue).collectBatches")
	for name, f := range map[string]*ssa.Function{"batch function (calls Batch and addToAdapter)": m.enq, "addToAdapter": m.addAd, "handleTransferResult": m.htr, "collectBatches": m.collect} {
		if f == nil {
			c.Missing("R0", name, "anchor function not found in package tq")
		}
	}
	if m.enq == nil || m.addAd == nil || m.htr == nil || m.collect == nil {
		return nil
	}
	for _, af := range m.enq.AnonFuncs {
		if hasCallTo(af, "(*tq.retryCounter).Increment") {
			m.retryFn = af
		}
	}
	if m.retryFn == nil {
		c.Missing("R0", "retry closure", "no closure of "+FnName(m.enq)+" calls retryCounter.Increment")
		return nil
	}
	for _, prm := range m.enq.Params {
		if typeName(prm.Type()) == "tq.batch" {
			m.batchPrm = prm
		}
	}
	if m.batchPrm == nil {
		c.Missing("R0", "batch parameter", "no parameter of type tq.batch")
		return nil
	}
	return m
}

func runC06(c *Ctx) {
	m := newTQModel(c)
	if m == nil {
		return
	}
	m.whoMayTouchCounter()
	m.loopDiscipline()
	m.unsettledReturns()
	m.abortOnFatal()
	m.transferResults()
	m.adapterErrorPath()
	m.partition()
	m.workers()
	m.lifecycle()
	m.deliveries()
	m.errorCoverage()
	m.noPanics()
	// shared with C15: Wait() can only return if retries are bounded; duplicates are delivered only if the completed flag survives
	savedPrefix := c.RulePrefix
	c.RulePrefix = savedPrefix + "C15/"
	runC15(c)
	c.RulePrefix = savedPrefix
	// an adapter that reports success (nil) without the transfer having happened makes the queue account the
	// object as completed: the upload-verification rule of C03 (success only through verifyUpload) is shared
	c.RulePrefix = savedPrefix + "C03/"
	c03Verify(c)
	c.RulePrefix = savedPrefix
	c06AuthGate(c)
	c06AbortableGroup(c)
	transferRelRule(c, "R13")
	adapterBegunRule(c, "R7")
	collectorLeavesOnlyWhenNothingIsOwed(c, "R2")
	concatKeepsEveryTuple(c, "R2")
	agentReadErrorEndsTheRead(c, "R2")
	decodedEntriesNilChecked(c, "R9")
	deliveryInOneCriticalSection(c, "R8")
	responseMatchedByOid(c, "R8")
	workerErrorPerJob(c, "R4")
}

// ---- who may decrement / increment the counter ------------------------------------------

func (m *tqModel) whoMayTouchCounter() {
	c, p := m.c, m.p
	allowedDone := map[*ssa.Function]bool{m.enq: true, m.htr: true, m.addAd: true}
	nDone, nAdd := 0, 0
	for _, fn := range p.RepoFuncs(productPkg) {
		for _, b := range fn.Blocks {
			for _, in := range b.Instrs {
				if isFieldMethodCall(in, "tq.TransferQueue", "wait", "Done") {
					nDone++
					root := fn
					for root.Parent() != nil {
						root = root.Parent()
					}
					_, isDefer := in.(*ssa.Defer)
					c.Check(allowedDone[fn] && !isDefer, "R4", "Done-site:"+FnName(fn), p.InstrPos(in),
						"decrement of the outstanding-object counter at an analysed site",
						"the outstanding-object counter is decremented outside the functions whose paths are counted (or in a defer/closure): this site is not covered by the exactly-once rules")
				}
				if isFieldMethodCall(in, "tq.TransferQueue", "wait", "Add") {
					nAdd++
					// must be under the first-seen edge of a lookup in q.transfers, with constant 1
					cc := AsCall(in)
					one := false
					if len(cc.Args) == 2 {
						if k, ok := ConstInt(cc.Args[1]); ok && k == 1 {
							one = true
						}
					}
					pass := PassEdges(fn, func(cond ssa.Value) (bool, bool) {
						if ex, ok := cond.(*ssa.Extract); ok && ex.Index == 1 {
							if lk, ok := ex.Tuple.(*ssa.Lookup); ok && lk.CommaOk && IsLoadOfField(lk.X, "tq.TransferQueue", "transfers") {
								return false, true // pass when NOT present
							}
						}
						return false, false
					})
					ok, path := Guarded(fn.Blocks[0], in, pass, nil)
					c.Check(one && ok && nonVacuous(pass), "R7", "Add-site:"+FnName(fn), p.InstrPos(in),
						"counter incremented by 1 only for an OID not yet registered",
						"counter increment is not (exactly 1, only on the first-seen edge of the transfers lookup) "+path)
				}
			}
		}
	}
	c.AtLeast("R4", "Done sites", nDone, 4)
	c.AtLeast("R7", "Add sites", nAdd, 1)
}

// ---- R1/R2/R3: loop discipline in the batch function ------------------------------------

// event classes in the batch function
func (m *tqModel) settleEvent(in ssa.Instruction) CSet {
	if isDone(in) || callsClosure(in, m.retryFn) || isAppendOf(in, "tq.Transfer") && m.appendFeedsAdapter(in) {
		return C1
	}
	return C0
}

// appendFeedsAdapter: the append's result flows (through phis) into the pending argument of addToAdapter.
func (m *tqModel) appendFeedsAdapter(in ssa.Instruction) bool {
	call := in.(*ssa.Call)
	seen := map[ssa.Value]bool{}
	var walk func(v ssa.Value) bool
	walk = func(v ssa.Value) bool {
		if seen[v] {
			return false
		}
		seen[v] = true
		for _, r := range Referrers(v) {
			switch x := r.(type) {
			case *ssa.Phi:
				if walk(x) {
					return true
				}
			case *ssa.Call:
				if CalleeName(&x.Call) == "(*tq.TransferQueue).addToAdapter" {
					return true
				}
				if b, ok := x.Call.Value.(*ssa.Builtin); ok && b.Name() == "append" && x.Call.Args[0] == v {
					if walk(x) {
						return true
					}
				}
			}
		}
		return false
	}
	return walk(call)
}

func onlyFromParam(p *Prog, v ssa.Value, prm *ssa.Parameter) bool {
	ls := p.LeavesNoFields(v, nil)
	if len(ls) == 0 {
		return false
	}
	for _, l := range ls {
		if l != ssa.Value(prm) {
			return false
		}
	}
	return true
}

type requestedSet struct {
	m       ssa.Value // the MakeMap
	fromReq bool
}

// requestedSets: maps populated only inside loops ranging over the batch parameter, keyed by
// the Oid of the loop element.
func (m *tqModel) requestedSets(loops []Loop) map[ssa.Value]bool {
	out := map[ssa.Value]bool{}
	bad := map[ssa.Value]bool{}
	for _, b := range m.enq.Blocks {
		for _, in := range b.Instrs {
			mu, ok := in.(*ssa.MapUpdate)
			if !ok {
				continue
			}
			if _, isMake := mu.Map.(*ssa.MakeMap); !isMake {
				continue
			}
			l := LoopOf(loops, b)
			good := l != nil && l.RangedOperand() != nil && onlyFromParam(m.p, l.RangedOperand(), m.batchPrm)
			if good {
				t, f, base, ok := FieldOf(mu.Key)
				good = ok && t == "tq.objectTuple" && f == "Oid" && base != nil
			}
			if good {
				out[mu.Map] = true
			} else {
				bad[mu.Map] = true
			}
		}
	}
	for k := range bad {
		delete(out, k)
	}
	return out
}

func lookupOkEdges(fn *ssa.Function, region map[*ssa.BasicBlock]bool, sets map[ssa.Value]bool) (okEdges, missEdges []Edge, lookups []*ssa.Lookup) {
	for _, b := range fn.Blocks {
		if region != nil && !region[b] {
			continue
		}
		ifi, ok := lastInstr(b).(*ssa.If)
		if !ok {
			continue
		}
		cond, flip := stripNot(ifi.Cond)
		ex, ok := cond.(*ssa.Extract)
		if !ok || ex.Index != 1 {
			continue
		}
		lk, ok := ex.Tuple.(*ssa.Lookup)
		if !ok || !lk.CommaOk || !sets[lk.X] {
			continue
		}
		lookups = append(lookups, lk)
		t, f := Edge{b, 0}, Edge{b, 1}
		if flip {
			t, f = f, t
		}
		okEdges = append(okEdges, t)
		missEdges = append(missEdges, f)
	}
	return
}

func (m *tqModel) loopDiscipline() {
	c, p := m.c, m.p
	fn := m.enq
	loops := Loops(fn)
	sets := m.requestedSets(loops)
	nSettling := 0
	consumeOnceLoops := 0
	leftoverLoops := 0
	// any settle event outside a loop is not understood
	for _, b := range fn.Blocks {
		for _, in := range b.Instrs {
			if m.settleEvent(in) == C1 && LoopOf(loops, b) == nil {
				c.Undecided("R2", "settle-outside-loop", p.InstrPos(in), "an object is settled (Done/retry/transfer) outside any per-object loop; multiplicity cannot be tied to the batch")
			}
		}
	}
	for li := range loops {
		l := loops[li]
		has := false
		for b := range l.Region {
			if LoopOf(loops, b) != &loops[li] && LoopOf(loops, b).Body != l.Body {
				continue
			}
			for _, in := range b.Instrs {
				if m.settleEvent(in) == C1 {
					has = true
				}
			}
		}
		if !has {
			continue
		}
		nSettling++
		ranged := l.RangedOperand()
		overBatch := ranged != nil && onlyFromParam(p, ranged, m.batchPrm)
		okE, missE, lks := lookupOkEdges(fn, l.Region, sets)
		key := fmt.Sprintf("loop@%s", m.loopName(l, ranged, overBatch))
		pos := p.InstrPos(firstPositioned(l.Body))
		q := CountQuery{Fn: fn, Entry: l.Body, Region: l.Region, Header: l.Header, Event: m.settleEvent, NoRet: m.noret}
		iterationExits := func(cut map[Edge]bool) []CountExit {
			q.Cut = cut
			var out []CountExit
			for _, e := range RunCount(q) {
				if e.Kind == "return" || e.Kind == "noreturn" {
					continue // judged by R6
				}
				out = append(out, e)
			}
			return out
		}
		isDrain := l.Kind == "rangechan" && ranged != nil && chanElemName(ranged.Type()) == "tq.objectTuple"
		if isDrain {
			if call, _, ok := CallResult(ranged); !ok || CalleeName(call.Common()) != "(*tq.TransferQueue).addToAdapter" {
				isDrain = false
			}
		}
		switch {
		case isDrain:
			// every tuple the collector put on the retries channel (its settlement, R4) is re-queued exactly once
			okd := true
			for _, e := range iterationExits(nil) {
				if e.Set != C1 {
					okd = false
				}
			}
			for b := range l.Region {
				for _, in := range b.Instrs {
					if isDone(in) || isAppendOf(in, "tq.Transfer") {
						okd = false
					}
				}
			}
			c.Check(okd, "R2", "loop@retries-drain", pos, "each tuple received from the adapter's retries channel is re-queued exactly once", "the drain loop over the retries channel does not re-queue each tuple exactly once (or settles it a second time)")
		case len(lks) == 0 && overBatch:
			// R1: every iteration settles exactly one object
			ok := true
			for _, e := range iterationExits(nil) {
				if e.Set != C1 {
					ok = false
					c.Bad("R1", key+":"+e.Kind, pos, fmt.Sprintf("an iteration over the requested objects settles %s objects on the path ending in %s (exactly 1 required)", e.Set, e.Desc(p)))
				}
			}
			if ok {
				c.OK("R1", key, pos, "each requested object is settled exactly once per iteration (Done | counted retry | handed to the adapter)")
			}
		case len(lks) == 0 && !overBatch:
			c.Bad("R3", key, pos, "objects are settled in a loop whose trip count comes from "+describeValue(p, ranged)+" and not from the requested batch, without a consume-once lookup in a set built from the batch: an omitted object is never settled (Wait hangs) and a repeated or unknown one is settled twice (negative counter panic / two transfers)")
		default:
			// guarded loop: ok-edge paths settle exactly one and delete the key; miss-edge paths settle none
			good := true
			for _, e := range iterationExits(EdgeSet(missE)) {
				if e.Set != C1 {
					good = false
					c.Bad("R2", key+":hit:"+e.Kind, pos, fmt.Sprintf("for an object of this batch the path ending in %s settles %s objects (exactly 1 required)", e.Desc(p), e.Set))
				}
			}
			for _, e := range iterationExits(EdgeSet(okE)) {
				if e.Set != C0 {
					good = false
					c.Bad("R2", key+":miss:"+e.Kind, pos, fmt.Sprintf("for an object that is not (or no longer) in the requested set the path ending in %s settles %s objects (0 required)", e.Desc(p), e.Set))
				}
			}
			// consume-once: on ok paths the key is deleted exactly once before the back edge
			delQ := q
			delQ.Event = func(in ssa.Instruction) CSet {
				if cc := AsCall(in); cc != nil {
					if b, ok := cc.Value.(*ssa.Builtin); ok && b.Name() == "delete" && sets[cc.Args[0]] {
						return C1
					}
				}
				return C0
			}
			delQ.Cut = EdgeSet(missE)
			for _, e := range RunCount(delQ) {
				if e.Kind == "return" || e.Kind == "noreturn" {
					continue
				}
				if e.Set != C1 {
					good = false
					c.Bad("R3", key+":consume-once:"+e.Kind, pos, fmt.Sprintf("an object found in the requested set is removed from it %s times on the path ending in %s (exactly once required, otherwise a repeated response object is settled twice)", e.Set, e.Desc(p)))
				}
			}
			// lookup key and delete key must be the same field of the loop element: checked by requiring
			// both keys to be loads of field Oid
			for _, lk := range lks {
				if _, f, _, ok := FieldOf(lk.Index); !ok || f != "Oid" {
					good = false
					c.Bad("R3", key+":lookup-key", p.InstrPos(lk), "the requested-set lookup is not keyed by the object's Oid")
				}
			}
			if overBatch {
				leftoverLoops++
			} else {
				consumeOnceLoops++
			}
			if good {
				if overBatch {
					c.OK("R3", key, pos, "leftovers loop: each object still in the requested set is settled exactly once, others not at all")
				} else {
					c.OK("R2", key, pos, "response loop: an object is settled exactly once and only at its first appearance; unknown/repeated response objects settle nothing")
					c.OK("R3", key+":consume-once", pos, "trip count comes from the response but every settlement is guarded by a consume-once lookup in the set built from the batch")
				}
			}
		}
	}
	c.AtLeast("R1", "settling loops in the batch function", nSettling, 2)
	if consumeOnceLoops > 0 {
		// leftovers must be settled after the response loop
		c.Check(leftoverLoops >= 1, "R3", "leftovers-settled", p.Pos(fn.Pos()), "objects the response never named are settled by a loop over the batch",
			"a consume-once response loop exists but no loop over the batch settles the objects the response did not name: an omitted object is never settled (Wait hangs)")
	}
}

func (m *tqModel) loopName(l Loop, ranged ssa.Value, overBatch bool) string {
	if overBatch {
		// distinguish batch loops by their first event kind / guard
		return fmt.Sprintf("batch[%s]", m.loopFlavor(l))
	}
	return fmt.Sprintf("%s[%s]", describeValue(m.p, ranged), m.loopFlavor(l))
}

func (m *tqModel) loopFlavor(l Loop) string {
	hasRetryTest, hasLookup, hasAppend := false, false, false
	for b := range l.Region {
		for _, in := range b.Instrs {
			if cc := AsCall(in); cc != nil && CalleeName(cc) == "(*tq.TransferQueue).canRetryObject" {
				hasRetryTest = true
			}
			if lk, ok := in.(*ssa.Lookup); ok && lk.CommaOk {
				if _, isMake := lk.X.(*ssa.MakeMap); isMake {
					hasLookup = true
				}
			}
			if isAppendOf(in, "tq.Transfer") {
				hasAppend = true
			}
		}
	}
	switch {
	case hasAppend:
		return "response"
	case hasLookup:
		return "leftovers"
	case hasRetryTest:
		return "batch-failure"
	}
	return "other"
}

func describeValue(p *Prog, v ssa.Value) string {
	if v == nil {
		return "an unknown value"
	}
	if t, f, _, ok := FieldOf(v); ok {
		return t + "." + f
	}
	if prm, ok := v.(*ssa.Parameter); ok {
		return "parameter " + prm.Name()
	}
	return strings.TrimSpace(v.Name() + " " + short(v.Type().String()))
}

// ---- R6: returns that leave objects unsettled -------------------------------------------

func (m *tqModel) unsettledReturns() {
	c, p := m.c, m.p
	fn := m.enq
	loops := Loops(fn)
	sets := m.requestedSets(loops)
	// settling-complete points: Done blocks of (a) unguarded batch loops with events, (b) leftover loops
	var complete []*ssa.BasicBlock
	for li := range loops {
		l := loops[li]
		ranged := l.RangedOperand()
		if ranged == nil || !onlyFromParam(p, ranged, m.batchPrm) || l.Done == nil {
			continue
		}
		has := false
		for b := range l.Region {
			for _, in := range b.Instrs {
				if m.settleEvent(in) == C1 {
					has = true
				}
			}
		}
		if has {
			_, _, lks := lookupOkEdges(fn, l.Region, sets)
			_ = lks
			complete = append(complete, l.Done)
		}
	}
	n := 0
	for _, r := range ReturnsOf(fn) {
		settled := false
		for _, d := range complete {
			if d.Dominates(r.Block()) {
				settled = true
			}
		}
		key := "return@" + m.returnFlavor(r)
		if settled {
			c.OK("R6", key+":settled", p.InstrPos(r), "return after a loop that settled every object of the batch")
			continue
		}
		n++
		// the error result must be non-nil and not retriable
		if len(r.Results) != 2 {
			c.Undecided("R6", key, p.InstrPos(r), "unexpected result shape")
			continue
		}
		ev := r.Results[1]
		call, _, isCall := CallResult(ev)
		switch {
		case IsNilConst(ev):
			c.Bad("R6", key, p.InstrPos(r), "returns a nil error although the objects of the batch have not been settled: nothing will ever decrement the counter for them, so Wait() blocks for ever")
		case isCall && nameIn(CalleeName(call.Common()), []string{"errors.New", "errors.Errorf", "errors.Wrap", "errors.Wrapf", "errors.NewFatalError", "fmt.Errorf"}):
			c.OK("R6", key, p.InstrPos(r), "unsettled return carries a non-retriable error (collectBatches aborts the wait group)")
		case isCall && strings.Contains(CalleeName(call.Common()), "Retriable"):
			c.Bad("R6", key, p.InstrPos(r), "returns a retriable error with unsettled objects: collectBatches continues and the objects are never settled")
		default:
			c.Undecided("R6", key, p.InstrPos(r), "cannot classify the error returned with unsettled objects ("+describeValue(p, ev)+")")
		}
	}
	c.Stat("unsettled-returns", n)
}

func (m *tqModel) returnFlavor(r *ssa.Return) string {
	if len(r.Results) == 2 {
		ev := r.Results[1]
		if IsNilConst(ev) {
			if IsNilConst(r.Results[0]) {
				return "nil,nil"
			}
			return "batch,nil"
		}
		if call, _, ok := CallResult(ev); ok {
			s := CalleeName(call.Common())
			// add the message constant when there is one to tell sites apart
			return s
		}
	}
	return "other"
}

// ---- R6b: collectBatches aborts on a non-retriable error --------------------------------

func (m *tqModel) abortOnFatal() {
	c, p := m.c, m.p
	fn := m.collect
	var aborts []ssa.Instruction
	for _, b := range fn.Blocks {
		for _, in := range b.Instrs {
			if isFieldMethodCall(in, "tq.TransferQueue", "wait", "Abort") {
				aborts = append(aborts, in)
			}
		}
	}
	if len(aborts) != 1 {
		c.Bad("R6", "collectBatches:abort", p.Pos(fn.Pos()), fmt.Sprintf("%d Abort() calls in collectBatches (one expected): an unsettled batch would leave Wait() blocked", len(aborts)))
		return
	}
	ab := aborts[0]
	// after the abort the loop must be left: the batch call must not be reachable from the abort block
	var batchCalls []ssa.Instruction
	for _, f := range WithAnon(fn) {
		for _, ci := range CallsIn(f, FnName(m.enq)) {
			batchCalls = append(batchCalls, ci)
		}
	}
	// the goroutine is started by a Go instruction in fn
	var goInstr ssa.Instruction
	for _, b := range fn.Blocks {
		for _, in := range b.Instrs {
			if _, ok := in.(*ssa.Go); ok {
				goInstr = in
			}
		}
	}
	if goInstr == nil || len(batchCalls) == 0 {
		c.Missing("R6", "collectBatches:batch-goroutine", "cannot find the goroutine that runs the batch function")
		return
	}
	// the batch function's error is reported on the error channel (R11 relies on it)
	for _, af := range fn.AnonFuncs {
		for _, ci := range CallsIn(af, FnName(m.enq)) {
			cut := map[Edge]bool{}
			nSend := 0
			for _, b := range af.Blocks {
				for _, in := range b.Instrs {
					if sd, ok := in.(*ssa.Send); ok && IsLoadOfField(sd.Chan, "tq.TransferQueue", "errorc") {
						nSend++
						for i := range b.Succs {
							cut[Edge{b, i}] = true
						}
						if len(b.Succs) == 0 {
							cut[Edge{b, -1}] = true
						}
					}
				}
				if ifi, ok := lastInstr(b).(*ssa.If); ok {
					cond, flip := stripNot(ifi.Cond)
					if _, trueMeansNil, ok := IsErrNilCheck(cond); ok {
						e := Edge{b, 1}
						if trueMeansNil != flip {
							e = Edge{b, 0}
						}
						cut[e] = true
					}
				}
			}
			escaped := false
			for b := range ReachBlocks(ci.Block(), cut, nil) {
				if _, ok := lastInstr(b).(*ssa.Return); ok {
					sendHere := false
					for _, in := range b.Instrs {
						if sd, ok := in.(*ssa.Send); ok && IsLoadOfField(sd.Chan, "tq.TransferQueue", "errorc") {
							sendHere = true
						}
					}
					if !sendHere {
						escaped = true
					}
				}
			}
			c.Check(nSend > 0 && !escaped, "R11", "collectBatches:batch-error-reported", p.InstrPos(ci), "a non-nil error of the batch function is always sent to the error channel", "the batch function's error can be dropped without being reported")
		}
	}
	reach := ReachBlocks(ab.Block(), nil, nil)
	c.Check(!reach[goInstr.Block()] || ab.Block() == goInstr.Block() && false, "R6", "collectBatches:abort-leaves-loop", p.InstrPos(ab),
		"after Abort() no further batch is started", "after Abort() the collector can start another batch")
	// every path from the join point on which err is non-nil and not retriable reaches the abort
	// before the next batch: cut (err == nil) edges and (IsRetriableError true) edges, then remove the
	// abort block: the next Go instruction and the function exit must be unreachable.
	var join *ssa.BasicBlock
	for _, ci := range CallsIn(fn, "(*tq.TransferQueue).collectPendingUntil") {
		join = ci.Block()
	}
	if join == nil {
		c.Missing("R6", "collectBatches:join", "collectPendingUntil call not found")
		return
	}
	cut := map[Edge]bool{}
	nTests := 0
	for _, b := range fn.Blocks {
		ifi, ok := lastInstr(b).(*ssa.If)
		if !ok {
			continue
		}
		cond, flip := stripNot(ifi.Cond)
		if _, trueMeansNil, ok := IsErrNilCheck(cond); ok {
			// cut the "err is nil" edge
			e := Edge{b, 1}
			if trueMeansNil != flip {
				e = Edge{b, 0}
			}
			cut[e] = true
			nTests++
		}
		if call, ok := cond.(*ssa.Call); ok && CalleeName(&call.Call) == "errors.IsRetriableError" {
			e := Edge{b, 0} // retriable == true
			if flip {
				e = Edge{b, 1}
			}
			cut[e] = true
			nTests++
		}
	}
	// remove abort block by cutting its outgoing edges
	for i := range ab.Block().Succs {
		cut[Edge{ab.Block(), i}] = true
	}
	r := ReachBlocks(join, cut, nil)
	escaped := ""
	for b := range r {
		if b == ab.Block() {
			continue
		}
		if b == goInstr.Block() && b != join {
			escaped = "the next batch is started"
		}
		if _, ok := lastInstr(b).(*ssa.Return); ok {
			escaped = "the collector returns"
		}
	}
	c.Check(nTests >= 2 && escaped == "", "R6", "collectBatches:fatal-error-aborts", p.InstrPos(ab),
		"a non-nil, non-retriable batch error always reaches Abort() before anything else",
		"with a non-retriable batch error "+escaped+" without Abort(): Wait() would block on the unsettled objects")
}

// ---- R4: handleTransferResult ------------------------------------------------------------

func (m *tqModel) transferResults() {
	c, p := m.c, m.p
	fn := m.htr
	// infeasible edges: lookup miss in q.transfers
	cut := map[Edge]bool{}
	for _, b := range fn.Blocks {
		ifi, ok := lastInstr(b).(*ssa.If)
		if !ok {
			continue
		}
		cond, flip := stripNot(ifi.Cond)
		if ex, ok := cond.(*ssa.Extract); ok && ex.Index == 1 {
			if lk, ok := ex.Tuple.(*ssa.Lookup); ok && lk.CommaOk && IsLoadOfField(lk.X, "tq.TransferQueue", "transfers") {
				e := Edge{b, 1}
				if flip {
					e = Edge{b, 0}
				}
				cut[e] = true
				c.Info("R4", "exception:transfers-lookup-miss", p.InstrPos(ifi), "edge assumed infeasible: the oid was registered by Add before it was batched")
			}
		}
	}
	ev := func(in ssa.Instruction) CSet {
		if isDone(in) || isSendOf(in, "tq.objectTuple") {
			return C1
		}
		return C0
	}
	ok := true
	n := 0
	for _, e := range RunCount(CountQuery{Fn: fn, Event: ev, NoRet: m.noret, Cut: cut}) {
		n++
		if e.Set != C1 {
			ok = false
			c.Bad("R4", "handleTransferResult:"+e.Kind, p.InstrPos(e.Instr), fmt.Sprintf("an adapter result is settled %s times on the path ending here (exactly one of Done / retry required)", e.Set))
		}
	}
	if ok && n > 0 {
		c.OK("R4", "handleTransferResult", p.Pos(fn.Pos()), "every path settles the result exactly once (Done or send on the retries channel)")
	}
	// success branch: Done only; error branch: retry only via canRetry*
	// who calls handleTransferResult: only addToAdapter's goroutine, once per result
	for _, cf := range p.RepoFuncs(productPkg) {
		for _, ci := range CallsIn(cf, FnName(fn)) {
			root := cf
			for root.Parent() != nil {
				root = root.Parent()
			}
			c.Check(root == m.addAd, "R4", "handleTransferResult-caller:"+FnName(cf), p.InstrPos(ci), "results are handled by addToAdapter's collector", "handleTransferResult is called from an unexpected place")
		}
	}
	// in the collector goroutine: each loop calls it exactly once per iteration
	for _, af := range m.addAd.AnonFuncs {
		loops := Loops(af)
		for li := range loops {
			l := loops[li]
			q := CountQuery{Fn: af, Entry: l.Body, Region: l.Region, Header: l.Header, NoRet: m.noret, Event: func(in ssa.Instruction) CSet {
				if cc := AsCall(in); cc != nil && cc.StaticCallee() == fn {
					return C1
				}
				return C0
			}}
			good := true
			for _, e := range RunCount(q) {
				if e.Set != C1 {
					good = false
				}
			}
			c.Check(good, "R4", fmt.Sprintf("collector-loop[%s]", describeValue(p, l.RangedOperand())), p.InstrPos(firstPositioned(l.Body)),
				"each result is handled exactly once", "a result of the adapter is handled zero or several times in the collector loop")
		}
		c.AtLeast("R4", "collector loops", len(loops), 2)
	}
}

// ---- R4b: addToAdapter error path ---------------------------------------------------------

func (m *tqModel) adapterErrorPath() {
	c, p := m.c, m.p
	fn := m.addAd
	loops := Loops(fn)
	n := 0
	for li := range loops {
		l := loops[li]
		ranged := l.RangedOperand()
		var pend *ssa.Parameter
		for _, prm := range fn.Params {
			if sl, ok := prm.Type().Underlying().(*types.Slice); ok && typeName(sl.Elem()) == "tq.Transfer" {
				pend = prm
			}
		}
		if pend == nil || ranged == nil || !onlyFromParam(p, ranged, pend) {
			continue
		}
		n++
		good := true
		for _, e := range RunCount(CountQuery{Fn: fn, Entry: l.Body, Region: l.Region, Header: l.Header, NoRet: m.noret, Event: func(in ssa.Instruction) CSet {
			if isDone(in) {
				return C1
			}
			return C0
		}}) {
			if e.Set != C1 {
				good = false
			}
		}
		c.Check(good, "R4", "addToAdapter:begin-failure-loop", p.InstrPos(firstPositioned(l.Body)), "when the adapter cannot start every pending transfer is settled exactly once", "adapter start failure does not settle each pending transfer exactly once")
	}
	c.AtLeast("R4", "addToAdapter failure loop", n, 1)
	// every return of addToAdapter: either the failure loop ran, or the collector goroutine was started
	for _, r := range ReturnsOf(fn) {
		okr := false
		for _, b := range fn.Blocks {
			for _, in := range b.Instrs {
				if _, isGo := in.(*ssa.Go); isGo && b.Dominates(r.Block()) {
					okr = true
				}
			}
		}
		for li := range loops {
			if loops[li].Done != nil && loops[li].Done.Dominates(r.Block()) {
				okr = true
			}
		}
		c.Check(okr, "R4", "addToAdapter:return", p.InstrPos(r), "return after starting the collector or after settling all pending transfers", "addToAdapter can return without starting the collector and without settling the pending transfers")
	}
}

// ---- partitionTransfers: each input in exactly one output --------------------------------

func (m *tqModel) partition() {
	c, p := m.c, m.p
	fn := p.Fn("tq", "(*TransferQueue).partitionTransfers")
	if fn == nil {
		c.Missing("R4", "partitionTransfers", "function not found")
		return
	}
	loops := Loops(fn)
	n := 0
	for li := range loops {
		l := loops[li]
		n++
		good := true
		why := ""
		for _, e := range RunCount(CountQuery{Fn: fn, Entry: l.Body, Region: l.Region, Header: l.Header, NoRet: m.noret, Event: func(in ssa.Instruction) CSet {
			if isAppendOf(in, "tq.Transfer") || isAppendOf(in, "tq.TransferResult") {
				return C1
			}
			return C0
		}}) {
			if e.Set != C1 {
				good = false
				why = fmt.Sprintf("a transfer lands in %s of the outputs on the path ending in %s", e.Set, e.Desc(p))
			}
		}
		c.Check(good, "R4", "partitionTransfers:loop", p.InstrPos(firstPositioned(l.Body)), "each transfer lands in exactly one of present/results", why)
	}
	c.AtLeast("R4", "partitionTransfers loops", n, 1)
	// the pass-through return (download direction) returns the input itself
	for _, r := range ReturnsOf(fn) {
		if len(r.Results) == 2 {
			if prm, ok := r.Results[0].(*ssa.Parameter); ok {
				c.Check(IsNilConst(r.Results[1]), "R4", "partitionTransfers:passthrough", p.InstrPos(r), "pass-through returns all inputs as present", "pass-through return also reports results")
				_ = prm
			}
		}
	}
}

// ---- R5: adapter workers -------------------------------------------------------------------

func (m *tqModel) workers() {
	c, p := m.c, m.p
	worker := p.Fn("tq", "(*adapterBase).worker")
	jobDone := p.Fn("tq", "(*job).Done")
	add := p.Fn("tq", "(*adapterBase).Add")
	end := p.Fn("tq", "(*adapterBase).End")
	for n, f := range map[string]*ssa.Function{"(*adapterBase).worker": worker, "(*job).Done": jobDone, "(*adapterBase).Add": add, "(*adapterBase).End": end} {
		if f == nil {
			c.Missing("R5", n, "function not found")
			return
		}
	}
	// job.Done: exactly one send and one WaitGroup.Done
	for _, want := range []struct {
		name string
		ev   func(in ssa.Instruction) bool
	}{
		{"send-result", func(in ssa.Instruction) bool { return isSendOf(in, "tq.TransferResult") }},
		{"wg.Done", func(in ssa.Instruction) bool {
			cc := AsCall(in)
			return cc != nil && CalleeName(cc) == "(*sync.WaitGroup).Done"
		}},
	} {
		good := true
		for _, e := range RunCount(CountQuery{Fn: jobDone, NoRet: m.noret, Event: func(in ssa.Instruction) CSet {
			if want.ev(in) {
				return C1
			}
			return C0
		}}) {
			if e.Set != C1 {
				good = false
			}
		}
		c.Check(good, "R5", "job.Done:"+want.name, p.Pos(jobDone.Pos()), "exactly once on every path", "job.Done does not perform "+want.name+" exactly once")
	}
	// worker: per job exactly one job.Done
	loops := Loops(worker)
	n := 0
	for li := range loops {
		l := loops[li]
		if l.Kind != "rangechan" {
			continue
		}
		n++
		good := true
		why := ""
		for _, e := range RunCount(CountQuery{Fn: worker, Entry: l.Body, Region: l.Region, Header: l.Header, NoRet: m.noret, Event: func(in ssa.Instruction) CSet {
			if cc := AsCall(in); cc != nil && cc.StaticCallee() == jobDone {
				if _, isDefer := in.(*ssa.Defer); !isDefer {
					return C1
				}
			}
			return C0
		}}) {
			if e.Set != C1 {
				good = false
				why = fmt.Sprintf("a job is reported %s times on the path ending in %s", e.Set, e.Desc(p))
			}
		}
		c.Check(good, "R5", "worker:job-loop", p.InstrPos(firstPositioned(l.Body)), "each job received is reported exactly once", why)
	}
	c.AtLeast("R5", "worker job loops", n, 1)
	// workerWait.Done exactly once per worker
	good := true
	for _, e := range RunCount(CountQuery{Fn: worker, NoRet: m.noret, Event: func(in ssa.Instruction) CSet {
		if isFieldMethodCall(in, "tq.adapterBase", "workerWait", "Done") {
			return C1
		}
		return C0
	}}) {
		if e.Set != C1 {
			good = false
		}
	}
	c.Check(good, "R5", "worker:workerWait.Done", p.Pos(worker.Pos()), "each worker signs off exactly once", "worker does not call workerWait.Done exactly once on every path")
	// Add: jobWait.Add(len(transfers)) and the goroutine sends one job per transfer, then Wait, then close
	var addArg ssa.Value
	for _, b := range add.Blocks {
		for _, in := range b.Instrs {
			if isFieldMethodCall(in, "tq.adapterBase", "jobWait", "Add") {
				addArg = AsCall(in).Args[1]
			}
		}
	}
	okAdd := false
	var xs *ssa.Parameter
	if call, ok := addArg.(*ssa.Call); ok {
		if b, ok := call.Call.Value.(*ssa.Builtin); ok && b.Name() == "len" {
			for _, prm := range add.Params {
				if onlyFromParam(p, call.Call.Args[0], prm) {
					xs = prm
					okAdd = true
				}
			}
		}
	}
	c.Check(okAdd, "R5", "adapterBase.Add:jobWait.Add(len(transfers))", p.Pos(add.Pos()), "job counter raised by the number of transfers", "jobWait.Add is not called with len(transfers)")
	for _, af := range add.AnonFuncs {
		ls := Loops(af)
		for li := range ls {
			l := ls[li]
			ro := l.RangedOperand()
			fromXs := ro != nil && xs != nil && onlyFromParam(p, ro, xs)
			gd := fromXs
			for _, e := range RunCount(CountQuery{Fn: af, Entry: l.Body, Region: l.Region, Header: l.Header, NoRet: m.noret, Event: func(in ssa.Instruction) CSet {
				if isSendOf(in, "tq.job") {
					return C1
				}
				return C0
			}}) {
				if e.Set != C1 {
					gd = false
				}
			}
			c.Check(gd, "R5", "adapterBase.Add:enqueue-loop", p.InstrPos(firstPositioned(l.Body)), "one job per transfer", "the enqueue loop does not send exactly one job per transfer of the counted slice")
		}
		// close(results) after jobWait.Wait
		var waitI, closeI ssa.Instruction
		for _, b := range af.Blocks {
			for _, in := range b.Instrs {
				if isFieldMethodCall(in, "tq.adapterBase", "jobWait", "Wait") {
					waitI = in
				}
				if cc := AsCall(in); cc != nil {
					if bi, ok := cc.Value.(*ssa.Builtin); ok && bi.Name() == "close" {
						closeI = in
					}
				}
			}
		}
		okc := waitI != nil && closeI != nil && (waitI.Block() == closeI.Block() && InstrIndex(waitI) < InstrIndex(closeI) || waitI.Block() != closeI.Block() && waitI.Block().Dominates(closeI.Block()))
		c.Check(okc, "R5", "adapterBase.Add:close-after-wait", p.Pos(af.Pos()), "results channel closed only after every job reported", "results channel is not closed after jobWait.Wait()")
	}
	// End: jobWait.Wait -> close(jobChan) -> workerWait.Wait in this order
	order := []string{}
	for _, b := range end.DomPreorder() {
		for _, in := range b.Instrs {
			switch {
			case isFieldMethodCall(in, "tq.adapterBase", "jobWait", "Wait"):
				order = append(order, "jobWait.Wait")
			case isFieldMethodCall(in, "tq.adapterBase", "workerWait", "Wait"):
				order = append(order, "workerWait.Wait")
			default:
				if cc := AsCall(in); cc != nil {
					if bi, ok := cc.Value.(*ssa.Builtin); ok && bi.Name() == "close" {
						order = append(order, "close")
					}
				}
			}
		}
	}
	c.Check(strings.Join(order, ",") == "jobWait.Wait,close,workerWait.Wait", "R5", "adapterBase.End:order", p.Pos(end.Pos()), "jobs drained, channel closed, workers joined — in this order", "End() order is "+strings.Join(order, ","))
}

// ---- R7: channel / wait-group lifecycle -----------------------------------------------------

func closesOf(fn *ssa.Function, pred func(v ssa.Value) bool) []ssa.Instruction {
	var out []ssa.Instruction
	for _, f := range WithAnon(fn) {
		for _, b := range f.Blocks {
			for _, in := range b.Instrs {
				if cc := AsCall(in); cc != nil {
					if bi, ok := cc.Value.(*ssa.Builtin); ok && bi.Name() == "close" && pred(cc.Args[0]) {
						out = append(out, in)
					}
				}
			}
		}
	}
	return out
}

func (m *tqModel) lifecycle() {
	c, p := m.c, m.p
	wait := p.Fn("tq", "(*TransferQueue).Wait")
	if wait == nil {
		c.Missing("R7", "(*TransferQueue).Wait", "not found")
		return
	}
	// errorc closed exactly once program-wide, in Wait, after collectorWait.Wait and q.wait.Wait
	isField := func(field string) func(v ssa.Value) bool {
		return func(v ssa.Value) bool { return IsLoadOfField(v, "tq.TransferQueue", field) }
	}
	for _, ch := range []string{"errorc", "incoming"} {
		total := 0
		for _, fn := range p.RepoFuncs(productPkg) {
			if fn.Parent() != nil {
				continue
			}
			cl := closesOf(fn, isField(ch))
			total += len(cl)
			for _, x := range cl {
				c.Check(fn == wait, "R7", "close("+ch+"):site:"+FnName(fn), p.InstrPos(x), "closed in Wait()", "queue channel "+ch+" is closed outside Wait()")
			}
		}
		c.Check(total == 1, "R7", "close("+ch+"):once", p.Pos(wait.Pos()), "closed at exactly one site", fmt.Sprintf("%d close sites for channel %s (exactly one expected)", total, ch))
	}
	// order in Wait: close(incoming) < q.wait.Wait < collectorWait.Wait < close(errorc) < errorwait.Wait ; watchers closed after q.wait.Wait
	var seq []string
	for _, b := range wait.DomPreorder() {
		for _, in := range b.Instrs {
			switch {
			case isFieldMethodCall(in, "tq.TransferQueue", "wait", "Wait"):
				seq = append(seq, "wait.Wait")
			case isFieldMethodCall(in, "tq.TransferQueue", "collectorWait", "Wait"):
				seq = append(seq, "collectorWait.Wait")
			case isFieldMethodCall(in, "tq.TransferQueue", "errorwait", "Wait"):
				seq = append(seq, "errorwait.Wait")
			default:
				if cc := AsCall(in); cc != nil {
					if bi, ok := cc.Value.(*ssa.Builtin); ok && bi.Name() == "close" {
						switch {
						case IsLoadOfField(cc.Args[0], "tq.TransferQueue", "incoming"):
							seq = append(seq, "close(incoming)")
						case IsLoadOfField(cc.Args[0], "tq.TransferQueue", "errorc"):
							seq = append(seq, "close(errorc)")
						default:
							seq = append(seq, "close(watcher)")
						}
					}
				}
			}
		}
	}
	want := "close(incoming),wait.Wait,collectorWait.Wait,close(errorc),close(watcher),errorwait.Wait"
	c.Check(strings.Join(seq, ",") == want, "R7", "Wait:order", p.Pos(wait.Pos()), "Wait() closes and joins in the safe order", "Wait() order is "+strings.Join(seq, ",")+" (expected "+want+")")
	// all sends on errorc happen in functions only reachable from the collector goroutine or Add (dynamic extent before close)
	nSend := 0
	for _, fn := range p.RepoFuncs(productPkg) {
		for _, b := range fn.Blocks {
			for _, in := range b.Instrs {
				if s, ok := in.(*ssa.Send); ok && IsLoadOfField(s.Chan, "tq.TransferQueue", "errorc") {
					nSend++
					root := fn
					for root.Parent() != nil {
						root = root.Parent()
					}
					allowed := map[string]bool{FnName(m.enq): true, FnName(m.htr): true, FnName(m.addAd): true, FnName(m.collect): true, "(*tq.TransferQueue).Add": true}
					c.Check(allowed[FnName(root)], "R7", "errorc-send-site:"+FnName(root), p.InstrPos(in), "error reported from the collector's dynamic extent or from Add", "error channel is written outside the collector/Add: it may be written after Wait() closed it (panic)")
				}
			}
		}
	}
	c.AtLeast("R7", "errorc send sites", nSend, 5)
	// collectBatches: collectorWait.Done deferred; done channel closed once per turn (deferred in the goroutine)
	hasDefer := false
	for _, b := range m.collect.Blocks {
		for _, in := range b.Instrs {
			if d, ok := in.(*ssa.Defer); ok && isFieldMethodCall(d, "tq.TransferQueue", "collectorWait", "Done") {
				hasDefer = b == m.collect.Blocks[0]
			}
		}
	}
	c.Check(hasDefer, "R7", "collectBatches:collectorWait.Done", p.Pos(m.collect.Pos()), "collector signs off on every exit (deferred at entry)", "collectBatches does not defer collectorWait.Done() at entry")
	for _, af := range m.collect.AnonFuncs {
		okd := false
		for _, in := range af.Blocks[0].Instrs {
			if d, ok := in.(*ssa.Defer); ok {
				if bi, ok := d.Call.Value.(*ssa.Builtin); ok && bi.Name() == "close" {
					okd = true
				}
			}
		}
		c.Check(okd, "R7", "collectBatches:done-channel", p.Pos(af.Pos()), "per-turn done channel closed on every exit of the batch goroutine", "the batch goroutine does not defer close(done) at entry: collectPendingUntil would block for ever on an early return")
	}
	// addToAdapter: retries closed exactly once on each path: failure path closes directly, goroutine defers close
	cl := closesOf(m.addAd, func(v ssa.Value) bool { return chanElemName(v.Type()) == "tq.objectTuple" })
	direct, deferred := 0, 0
	for _, x := range cl {
		if _, ok := x.(*ssa.Defer); ok {
			deferred++
		} else {
			direct++
		}
	}
	c.Check(direct == 1 && deferred == 1, "R7", "addToAdapter:close(retries)", p.Pos(m.addAd.Pos()), "retries channel closed once on the failure path and once (deferred) by the collector", fmt.Sprintf("retries channel: %d direct and %d deferred close sites (1 and 1 expected)", direct, deferred))
	// the constructor raises collectorWait and errorwait by one and starts the goroutines
	ctor := p.Fn("tq", "NewTransferQueue")
	if ctor != nil {
		for _, f := range []string{"collectorWait", "errorwait"} {
			n := 0
			for _, b := range ctor.Blocks {
				for _, in := range b.Instrs {
					if isFieldMethodCall(in, "tq.TransferQueue", f, "Add") {
						if k, ok := ConstInt(AsCall(in).Args[1]); ok && k == 1 {
							n++
						}
					}
				}
			}
			c.Check(n == 1, "R7", "NewTransferQueue:"+f+".Add(1)", p.Pos(ctor.Pos()), "raised once by one", fmt.Sprintf("%s.Add(1) occurs %d times in the constructor", f, n))
		}
	}
}

// ---- R8: deliveries ---------------------------------------------------------------------------

func (m *tqModel) deliveries() {
	c, p := m.c, m.p
	n := 0
	for _, fn := range p.RepoFuncs(func(s string) bool { return s == Mod+"/tq" }) {
		for _, b := range fn.Blocks {
			for _, in := range b.Instrs {
				s, ok := in.(*ssa.Send)
				if !ok || chanElemName(s.Chan.Type()) != "tq.Transfer" {
					continue
				}
				// watcher channel: element of q.watchers
				isWatcher := false
				for _, l := range p.LeavesNoFields(s.Chan, func(v ssa.Value) FlowAct {
					if IsLoadOfField(v, "tq.TransferQueue", "watchers") {
						return Stop
					}
					return Descend
				}) {
					if IsLoadOfField(l, "tq.TransferQueue", "watchers") {
						isWatcher = true
					}
				}
				if !isWatcher {
					continue
				}
				n++
				switch fn {
				case m.htr:
					// only when res.Error == nil
					pass := PassEdges(fn, func(cond ssa.Value) (bool, bool) {
						e, trueMeansNil, ok := IsErrNilCheck(cond)
						if ok {
							if _, f, _, isF := FieldOf(e); isF && f == "Error" {
								return trueMeansNil, true
							}
						}
						return false, false
					})
					okg, path := Guarded(fn.Blocks[0], in, pass, nil)
					c.Check(okg && nonVacuous(pass), "R8", "deliver:on-success-only", p.InstrPos(in), "watchers are notified only for a result without error", "a transfer is delivered to watchers although its result carries an error: "+path)
					// one notification per queued entry of the OID, each describing that entry: name, path, oid and size
					// of what is sent come from the loop's own element (two paths with identical content are two
					// entries of one OID; the filter process and pull look the path up by this name)
					if al, isAl := s.X.(*ssa.Alloc); isAl {
						loops := Loops(fn)
						lp := LoopOf(loops, b)
						for _, r := range Referrers(al) {
							fa, ok := r.(*ssa.FieldAddr)
							if !ok {
								continue
							}
							_, fld := fieldAddrName(fa)
							if fld != "Name" && fld != "Path" && fld != "Oid" && fld != "Size" {
								continue
							}
							for _, rr := range Referrers(fa) {
								st, ok := rr.(*ssa.Store)
								if !ok || st.Addr != ssa.Value(fa) {
									continue
								}
								_, srcF, base, isF := FieldOf(st.Val)
								own := false
								if isF && srcF == fld && lp != nil {
									if ld, ok := Unwrap(base).(*ssa.UnOp); ok {
										if ia, ok := ld.X.(*ssa.IndexAddr); ok && lp.RangedOperand() != nil && Unwrap(ia.X) == Unwrap(lp.RangedOperand()) {
											own = true
										}
									}
									if ia, ok := Unwrap(base).(*ssa.IndexAddr); ok && lp.RangedOperand() != nil && Unwrap(ia.X) == Unwrap(lp.RangedOperand()) {
										own = true
									}
								}
								c.Check(own, "R8", "deliver:describes-own-entry:"+fld, p.InstrPos(st), "the notification's "+fld+" is that of the entry being iterated",
									"the notification sent for each queued entry of an OID takes its "+fld+" from somewhere else than that entry ("+describeValue(p, st.Val)+"): with two paths of identical content one path is announced twice and the other never")
							}
						}
					}
				case p.Fn("tq", "(*TransferQueue).Add"):
					pass := PassEdges(fn, func(cond ssa.Value) (bool, bool) {
						if _, f, _, ok := FieldOf(cond); ok && f == "completed" {
							return true, true
						}
						return false, false
					})
					okg, path := Guarded(fn.Blocks[0], in, pass, nil)
					c.Check(okg && nonVacuous(pass), "R8", "deliver:duplicate-after-completion", p.InstrPos(in), "a repeated Add is delivered only when the first transfer completed", "a repeated Add is delivered to watchers although the object has not completed: "+path)
				default:
					c.Bad("R8", "deliver:site:"+FnName(fn), p.InstrPos(in), "watchers are notified from an unexpected function")
				}
			}
		}
	}
	c.AtLeast("R8", "watcher send sites", n, 2)
	// `completed` is set only in the success branch of handleTransferResult
	for _, fn := range p.RepoFuncs(func(s string) bool { return s == Mod+"/tq" }) {
		for _, b := range fn.Blocks {
			for _, in := range b.Instrs {
				st, ok := in.(*ssa.Store)
				if !ok {
					continue
				}
				if fa, ok := st.Addr.(*ssa.FieldAddr); ok {
					t, f := fieldAddrName(fa)
					if t == "tq.objects" && f == "completed" {
						if bv, isC := ConstBool(st.Val); isC && !bv {
							continue
						}
						if IsLoadOfField(st.Val, "tq.objects", "completed") {
							continue // copying the flag (Append)
						}
						c.Check(fn == m.htr, "R8", "completed-set:"+FnName(fn), p.InstrPos(in), "objects are marked completed only by a successful result", "objects.completed is set outside handleTransferResult")
						if fn == m.htr {
							// ... and there only when the result carries no error: a repeated Add of a completed OID is
							// answered at once as delivered (deliver:duplicate-after-completion)
							pass := PassEdges(fn, func(cond ssa.Value) (bool, bool) {
								e, trueMeansNil, ok := IsErrNilCheck(cond)
								if ok {
									if _, f, _, isF := FieldOf(e); isF && f == "Error" {
										return trueMeansNil, true
									}
								}
								return false, false
							})
							g, path := Guarded(fn.Blocks[0], in, pass, nil)
							c.Check(g && nonVacuous(pass), "R8", "completed-only-on-success", p.InstrPos(in), "an OID is marked completed only for a result without error", "an OID is marked completed although its transfer failed: a later Add of the same OID is reported to the watchers as transferred while no object was stored: "+path)
						}
					}
				}
			}
		}
	}
}

// ---- R11: an object settled without transfer is covered by a reported error -------------------

// Every decrement of the counter that is not a success must be explained on the same path: an
// error was sent to the queue's error channel, or the server
// declared that no transfer is needed (no action), or the function goes on to return a
// non-nil error (which collectBatches reports).
func (m *tqModel) errorCoverage() {
	c, p := m.c, m.p
	for _, fn := range []*ssa.Function{m.enq, m.htr, m.addAd} {
		loops := Loops(fn)
		idx := 0
		for _, b := range fn.Blocks {
			for _, in := range b.Instrs {
				if !isDone(in) {
					continue
				}
				idx++
				entry := fn.Blocks[0]
				if l := LoopOf(loops, b); l != nil {
					entry = l.Body
				}
				key := fmt.Sprintf("%s:Done@%s", FnName(fn), m.doneFlavor(in))
				// coverage blocks
				cut := map[Edge]bool{}
				coveredInBlock := false
				for _, cb := range fn.Blocks {
					cov := false
					for _, x := range cb.Instrs {
						if x == in {
							if cov {
								coveredInBlock = true
							}
							break
						}
						if s, ok := x.(*ssa.Send); ok && IsLoadOfField(s.Chan, "tq.TransferQueue", "errorc") {
							cov = true
						}
						// (raising the 422 flag only prints a hint at the end: it is not a reported error — the
						// queue's Errors() stay empty and push exits 0 — so it does not count as coverage)
						if cc := AsCall(x); cc != nil && CalleeName(cc) == "(*tq.Meter).FinishTransfer" {
							cov = true
						}
					}
					if cov && cb != b {
						for i := range cb.Succs {
							cut[Edge{cb, i}] = true
						}
					}
					if cov && cb == b {
						coveredInBlock = true
					}
				}
				// "no action" edge: x == nil where x is the action returned by Rel
				for _, e := range PassEdges(fn, func(cond ssa.Value) (bool, bool) {
					v, trueMeansNil, ok := IsErrNilCheck(cond)
					if ok {
						if call, idx, isRes := CallResult(v); isRes && idx == 0 && CalleeName(call.Common()) == "(*tq.Transfer).Rel" {
							return trueMeansNil, true
						}
					}
					return false, false
				}) {
					cut[e] = true
				}
				covered := coveredInBlock || !InstrReachable(entry, in, cut, m.noret)
				if !covered {
					// an error reported once before the loop covers every iteration (adapter could not start)
					if l := LoopOf(loops, b); l != nil {
						for e := range cut {
							if e.From.Dominates(l.Header) && !l.Region[e.From] && LoopOf(loops, e.From) == nil {
								covered = true
							}
						}
					}
				}
				if !covered {
					// by-return: every feasible return after this Done carries a non-nil error
					byReturn := true
					nRet := 0
					Explore(nil, in, nil, m.noret, func(x ssa.Instruction, st PState) bool {
						r, ok := x.(*ssa.Return)
						if !ok {
							return true
						}
						nRet++
						if len(r.Results) == 0 {
							byReturn = false
							return false
						}
						ev := Resolve(r.Results[len(r.Results)-1], st)
						if cst, ok := EvalConst(ev, st); ok && cst.Value == nil {
							byReturn = false
						}
						if _, isErr := ev.Type().Underlying().(*types.Interface); !isErr {
							byReturn = false
						}
						return false
					})
					covered = byReturn && nRet > 0
				}
				c.Check(covered, "R11", key, p.InstrPos(in), "an object settled without transfer is covered by a reported error (or success / no action needed)",
					"an object can be settled (counter decremented) without having been transferred and without any error being reported: the caller sees success although the object was never delivered")
			}
		}
	}
}

func (m *tqModel) doneFlavor(in ssa.Instruction) string {
	b := in.Block()
	var tags []string
	for _, x := range b.Instrs {
		if cc := AsCall(x); cc != nil {
			switch CalleeName(cc) {
			case "(*tq.Meter).FinishTransfer":
				tags = append(tags, "success")
			case "(*tq.TransferQueue).Skip":
				tags = append(tags, "skip")
			}
		}
		if s, ok := x.(*ssa.Send); ok && IsLoadOfField(s.Chan, "tq.TransferQueue", "errorc") {
			tags = append(tags, "error")
		}
	}
	if len(tags) == 0 {
		tags = append(tags, "bare")
	}
	return fmt.Sprintf("%s/b%d", strings.Join(tags, "+"), b.Index)
}

// ---- R9: explicit panics reachable from the queue ----------------------------------------------

func (m *tqModel) noPanics() {
	c, p := m.c, m.p
	// explicit panic instructions in the queue's own functions (package tq, files of the queue and adapter base)
	n := 0
	for _, fn := range p.RepoFuncs(func(s string) bool { return s == Mod+"/tq" }) {
		root := fn
		for root.Parent() != nil {
			root = root.Parent()
		}
		recv := ""
		if root.Signature.Recv() != nil {
			recv = typeName(root.Signature.Recv().Type())
		}
		if recv != "tq.TransferQueue" && recv != "tq.adapterBase" && recv != "tq.job" && recv != "tq.abortableWaitGroup" && recv != "tq.batch" && recv != "tq.retryCounter" {
			continue
		}
		n++
		for _, b := range fn.Blocks {
			for _, in := range b.Instrs {
				if _, ok := in.(*ssa.Panic); ok && in.Pos().IsValid() {
					c.Bad("R9", "explicit-panic:"+FnName(fn), p.InstrPos(in), "explicit panic in the transfer queue's own code")
				}
				// unchecked type assertions
				if ta, ok := in.(*ssa.TypeAssert); ok && !ta.CommaOk {
					c.Bad("R9", "type-assert:"+FnName(fn), p.InstrPos(in), "type assertion without comma-ok in the transfer queue's own code can panic")
				}
				// integer division by a non-constant
				if bo, ok := in.(*ssa.BinOp); ok && (bo.Op == token.QUO || bo.Op == token.REM) {
					if bt, ok := bo.X.Type().Underlying().(*types.Basic); ok && bt.Info()&types.IsInteger != 0 {
						if _, isC := bo.Y.(*ssa.Const); !isC {
							c.Bad("R9", "int-division:"+FnName(fn), p.InstrPos(in), "integer division by a non-constant can panic")
						}
					}
				}
			}
		}
	}
	if n > 0 {
		c.OK("R9", "queue-functions-free-of-explicit-panics", "-", fmt.Sprintf("%d functions of the queue, adapter base, batch and retry counter contain no panic(), unchecked type assertion or division by a variable", n))
	}
	// abortableWaitGroup.Done must not be able to go negative silently: it delegates to sync.WaitGroup
}

var c06Canaries = []Canary{
	{Name: "r7-agent-eof-loop", ExpectKey: "C06.R2#custom-agent:read-error-ends-the-read", Edits: []Edit{{File: "tq/custom.go", Find: "}\n\nfunc (a *customAdapter) readResponse(ctx *customAdapterWorkerContext) (*customAdapterResponseMessage, error) {\n\tline, err := ctx.bufferedOut.ReadString('\\n')\n\tif err != nil {\n\t\treturn nil, err\n\t}\n\ta.Trace(\"xfer: Custom adapter worker %d received response: %v\", ctx.workerNum, strings.TrimSpace(line))\n\tresp := &customAdapterResponseMessage{}\n\terr = json.Unmarshal([]byte(line), resp)\n\treturn resp, err\n}\n\n", Repl: "}\n\nfunc (a *customAdapter) readResponse(ctx *customAdapterWorkerContext) (*customAdapterResponseMessage, error) {\n\t// Transfer agents may pad their output with blank lines, and the last\n\t// message a process writes need not be newline-terminated.\n\tvar line string\n\tfor len(strings.TrimSpace(line)) == 0 {\n\t\tvar err error\n\t\tline, err = ctx.bufferedOut.ReadString('\\n')\n\t\tif err != nil && err != io.EOF {\n\t\t\treturn nil, err\n\t\t}\n\t}\n\ta.Trace(\"xfer: Custom adapter worker %d received response: %v\", ctx.workerNum, strings.TrimSpace(line))\n\tresp := &customAdapterResponseMessage{}\n\terr := json.Unmarshal([]byte(line), resp)\n\treturn resp, err\n}\n\n"}}},
	{Name: "r7-concat-drops-waiting", ExpectKey: "C06.R2#Concat:result-holds-every-tuple", Edits: []Edit{{File: "tq/transfer_queue.go", Find: "\t\t// If the size of left fits the given size limit, return with no adjustments.\n\t\treturn left, right, minWait\n\t}\n\t// If left is too large, trip left up to size and append the rest to right.\n\tright = append(right, left[size:]...)\n\tleft = left[:size]\n\treturn left, right, minWait\n}\n\nfunc (b batch) ToTransfers() []*Transfer {\n", Repl: "\t\t// If the size of left fits the given size limit, return with no adjustments.\n\t\treturn left, right, minWait\n\t}\n\t// If left is too large, trim left down to size; the rest goes to right.\n\treturn left[:size], left[size:], minWait\n}\n\nfunc (b batch) ToTransfers() []*Transfer {\n"}}},
	{Name: "f19-null-batch-entry", ExpectKey: "C06.R9", Edits: []Edit{{File: "tq/api.go", Find: "\t\treturn nil, lfshttp.NewStatusCodeError(res)\n\t}\n\n\t// A response may contain null where an object or an action is\n\t// expected. Such an entry names nothing: drop it here, so that the\n\t// transfer queue reports the objects the response does not list\n\t// instead of dereferencing a nil pointer.\n\tobjects := bRes.Objects[:0]\n\tfor _, obj := range bRes.Objects {\n\t\tif obj == nil {\n\t\t\tcontinue\n\t\t}\n\t\tobj.Missing = missing[obj.Oid]\n\t\tfor rel, a := range obj.Actions {\n\t\t\tif a == nil {\n\t\t\t\tdelete(obj.Actions, rel)\n\t\t\t\tcontinue\n\t\t\t}\n\t\t\ta.createdAt = requestedAt\n\t\t}\n\t\tfor rel, a := range obj.Links {\n\t\t\tif a == nil {\n\t\t\t\tdelete(obj.Links, rel)\n\t\t\t}\n\t\t}\n\t\tobjects = append(objects, obj)\n\t}\n\tbRes.Objects = objects\n\n\treturn bRes, nil\n}\n", Repl: "\t\treturn nil, lfshttp.NewStatusCodeError(res)\n\t}\n\n\tfor _, obj := range bRes.Objects {\n\t\tobj.Missing = missing[obj.Oid]\n\t\tfor _, a := range obj.Actions {\n\t\t\ta.createdAt = requestedAt\n\t\t}\n\t}\n\n\treturn bRes, nil\n}\n"}}},
	{Name: "f18-422-not-reported", ExpectKey: "C06.R11", Edits: []Edit{{File: "tq/transfer_queue.go", Find: "\t\t\t// If the error wasn't retriable, OR the object has\n\t\t\t// exceeded its retry budget, it will be NOT be sent to\n\t\t\t// the retry channel, and the error will be reported\n\t\t\t// immediately (for a HTTP 422, together with a hint\n\t\t\t// printed when the queue finishes).\n\t\t\tif errors.IsUnprocessableEntityError(res.Error) {\n\t\t\t\tq.unsupportedContentType = true\n\t\t\t}\n\t\t\tq.errorc <- res.Error\n\t\t\tq.wait.Done()\n\t\t}\n\t} else {\n", Repl: "\t\t\t// If the error wasn't retriable, OR the object has\n\t\t\t// exceeded its retry budget, it will be NOT be sent to\n\t\t\t// the retry channel, and the error will be reported\n\t\t\t// immediately (unless the error is in response to a\n\t\t\t// HTTP 422).\n\t\t\tif errors.IsUnprocessableEntityError(res.Error) {\n\t\t\t\tq.unsupportedContentType = true\n\t\t\t} else {\n\t\t\t\tq.errorc <- res.Error\n\t\t\t}\n\t\t\tq.wait.Done()\n\t\t}\n\t} else {\n"}}},
	{Name: "r6-deliver-in-two-critical-sections", ExpectKey: "C06.R8#deliver:mark-and-notify-under-one-lock", Edits: []Edit{{File: "tq/transfer_queue.go", Find: "\t} else {\n\t\tq.trMutex.Lock()\n\t\tobjects := q.transfers[oid]\n\t\tobjects.completed = true\n\n\t\t// Otherwise, if the transfer was successful, notify all of the\n\t\t// watchers, and mark it as finished.\n\t\tfor _, c := range q.watchers {\n\t\t\t// Send one update for each transfer with the\n\t\t\t// same OID.\n", Repl: "\t} else {\n\t\tq.trMutex.Lock()\n\t\tobjects := q.transfers[oid]\n\t\tq.trMutex.Unlock()\n\n\t\t// Otherwise, if the transfer was successful, notify all of the\n\t\t// watchers, and mark it as finished. The watcher channels may be\n\t\t// full, so don't make Add() wait for their consumers.\n\t\tfor _, c := range q.watchers {\n\t\t\t// Send one update for each transfer with the\n\t\t\t// same OID.\n"}, {File: "tq/transfer_queue.go", Find: "\t\t\t}\n\t\t}\n\n\t\tq.trMutex.Unlock()\n\n\t\tq.meter.FinishTransfer(res.Transfer.Name)\n", Repl: "\t\t\t}\n\t\t}\n\n\t\tq.trMutex.Lock()\n\t\tobjects.completed = true\n\t\tq.trMutex.Unlock()\n\n\t\tq.meter.FinishTransfer(res.Transfer.Name)\n"}}},
	{Name: "r5-collector-leaves-with-pending", ExpectKey: "C06.R2#collectBatches", Edits: []Edit{{File: "tq/transfer_queue.go", Find: "\t\t} else if len(next) == 0 && len(pending) == 0 && closing {", Repl: "\t\t} else if len(next) == 0 && closing {"}}},
	{Name: "r4-in-progress-before-begin", ExpectKey: "C06.R7#adapter-in-progress", Edits: []Edit{{File: "tq/transfer_queue.go", Find: "\terr := q.adapter.Begin(q.toAdapterCfg(e), cb)\n\tif err != nil {\n\t\treturn err\n\t}\n\tq.adapterInProgress = true", Repl: "\tq.adapterInProgress = true\n\terr := q.adapter.Begin(q.toAdapterCfg(e), cb)\n\tif err != nil {\n\t\treturn err\n\t}"}}},
	{Name: "drop-done-batch-failure", ExpectKey: "C06.R1", Edits: []Edit{{File: "tq/transfer_queue.go", Find: "					hasNonRetriableObjects = true\n					q.wait.Done()", Repl: "					hasNonRetriableObjects = true"}}},
	{Name: "drop-done-object-error", ExpectKey: "C06.R2", Edits: []Edit{{File: "tq/transfer_queue.go", Find: "			q.errorc <- errors.Wrapf(o.Error, \"[%v] %v\", o.Oid, o.Error.Message)\n			q.Skip(o.Size)\n			q.wait.Done()", Repl: "			q.errorc <- errors.Wrapf(o.Error, \"[%v] %v\", o.Oid, o.Error.Message)\n			q.Skip(o.Size)"}}},
	{Name: "double-done-no-action", ExpectKey: "C06.R2", Edits: []Edit{{File: "tq/transfer_queue.go", Find: "			} else if a == nil && manifest.standaloneTransferAgent == \"\" {\n				q.Skip(o.Size)\n				q.wait.Done()", Repl: "			} else if a == nil && manifest.standaloneTransferAgent == \"\" {\n				q.Skip(o.Size)\n				q.wait.Done()\n				q.wait.Done()"}}},
	{Name: "done-for-unknown-oid", ExpectKey: "C06.R2", Edits: []Edit{{File: "tq/transfer_queue.go", Find: "			q.errorc <- errors.New(tr.Tr.Get(\"[%v] The server returned an unknown OID.\", o.Oid))\n			continue", Repl: "			q.errorc <- errors.New(tr.Tr.Get(\"[%v] The server returned an unknown OID.\", o.Oid))\n			q.wait.Done()\n			continue"}}},
	{Name: "no-consume-once", ExpectKey: "C06.R3", Edits: []Edit{{File: "tq/transfer_queue.go", Find: "		delete(requested, o.Oid)\n\n		if o.Error != nil {", Repl: "		if o.Error != nil {"}}},
	{Name: "no-leftovers", ExpectKey: "C06.R3", Edits: []Edit{{File: "tq/transfer_queue.go", Find: "			q.errorc <- errors.New(tr.Tr.Get(\"[%v] The server did not return this object.\", t.Oid))\n			q.Skip(t.Size)\n			q.wait.Done()", Repl: "			q.errorc <- errors.New(tr.Tr.Get(\"[%v] The server did not return this object.\", t.Oid))\n			q.Skip(t.Size)"}}},
	{Name: "empty-response-early-return", ExpectKey: "C06.R6", Edits: []Edit{{File: "tq/transfer_queue.go", Find: "	// We check first that all of the objects we want to upload are present,", Repl: "	if len(bRes.Objects) == 0 {\n		return next, nil\n	}\n	// We check first that all of the objects we want to upload are present,"}}},
	{Name: "missing-source-retriable", ExpectKey: "C06.R6", Edits: []Edit{{File: "tq/transfer_queue.go", Find: "				return nil, errors.New(tr.Tr.Get(\"Unable to find source for object %v (try running `git lfs fetch --all`)\", o.Oid))", Repl: "				return nil, errors.NewRetriableError(errors.New(tr.Tr.Get(\"Unable to find source for object %v (try running `git lfs fetch --all`)\", o.Oid)))"}}},
	{Name: "retry-and-done", ExpectKey: "C06.R4", Edits: []Edit{{File: "tq/transfer_queue.go", Find: "			if ok {\n				retries <- objects.First()\n			} else {", Repl: "			if ok {\n				retries <- objects.First()\n				q.wait.Done()\n			} else {"}}},
	{Name: "success-without-done", ExpectKey: "C06.R4", Edits: []Edit{{File: "tq/transfer_queue.go", Find: "		q.meter.FinishTransfer(res.Transfer.Name)\n		q.wait.Done()", Repl: "		q.meter.FinishTransfer(res.Transfer.Name)"}}},
	{Name: "no-abort", ExpectKey: "C06.R6", Edits: []Edit{{File: "tq/transfer_queue.go", Find: "			q.wait.Abort()\n			break", Repl: "			break"}}},
	{Name: "deliver-on-error", ExpectKey: "C06.R8", Edits: []Edit{{File: "tq/transfer_queue.go", Find: "			if errors.IsUnprocessableEntityError(res.Error) {\n				q.unsupportedContentType = true", Repl: "			if errors.IsUnprocessableEntityError(res.Error) {\n				for _, c := range q.watchers {\n					c <- res.Transfer\n				}\n				q.unsupportedContentType = true"}}},
	{Name: "retries-not-closed", ExpectKey: "C06.R7", Edits: []Edit{{File: "tq/transfer_queue.go", Find: "	go func() {\n		defer close(retries)\n", Repl: "	go func() {\n"}}},
	{Name: "worker-skips-done", ExpectKey: "C06.R5", Edits: []Edit{{File: "tq/adapterbase.go", Find: "		if t.Size < 0 {\n			err = errors.New(tr.Tr.Get(\"object %q has invalid size (got: %d)\", t.Oid, t.Size))\n		} else {", Repl: "		if t.Size < 0 {\n			continue\n		} else {"}}},
	{Name: "silent-drop-on-batch-error", ExpectKey: "C06.R11", Edits: []Edit{{File: "tq/transfer_queue.go", Find: "			if hasNonRetriableObjects {\n				return next, errors.NewRetriableError(err)", Repl: "			if hasNonRetriableObjects && len(next) == 0 {\n				return next, errors.NewRetriableError(err)"}}},
	{Name: "silent-drop-on-rel-error", ExpectKey: "C06.R11", Edits: []Edit{{File: "tq/transfer_queue.go", Find: "					q.errorc <- errors.Errorf(\"[%v] %v\", tr.Name, err)\n", Repl: ""}}},
	{Name: "batch-error-dropped", ExpectKey: "C06.R11", Edits: []Edit{{File: "tq/transfer_queue.go", Find: "			retries, err = q.enqueueAndCollectRetriesFor(next)\n			if err != nil {\n				q.errorc <- err\n			}", Repl: "			retries, err = q.enqueueAndCollectRetriesFor(next)\n			if err != nil && !errors.IsRetriableError(err) {\n				q.errorc <- err\n			}"}}},
	{Name: "done-elsewhere", ExpectKey: "C06.R4", Edits: []Edit{{File: "tq/transfer_queue.go", Find: "func (q *TransferQueue) Skip(size int64) {\n	q.meter.Skip(size)", Repl: "func (q *TransferQueue) Skip(size int64) {\n	if size < 0 {\n		q.wait.Done()\n	}\n	q.meter.Skip(size)"}}},
	{Name: "partition-drops-empty", ExpectKey: "C06.R4", Edits: []Edit{{File: "tq/transfer_queue.go", Find: "		} else {\n			present = append(present, t)\n		}", Repl: "		} else if t.Size > 0 {\n			present = append(present, t)\n		}"}}},
}

// c06AuthGate (R12): workers 1..n-1 of an adapter sleep on authWait until worker 0 has got its first answer; Begin
// adds one to that wait group. It must be released exactly once whatever happens to worker 0's jobs, otherwise
// the other workers never start or finish and TransferQueue.Wait() does not return. The code keeps a flag "the
// gate still has to be released" that is cleared where Done is called and tested before the fall-back Done at the
// end of the worker. Decided: (a) the flag is cleared only next to a call of authWait.Done(), (b) every
// authWait.Done() clears the flag in the same block or is guarded by the flag, (c) the guarded fall-back exists
// after the job loop.
func c06AuthGate(c *Ctx) {
	p := c.P
	w := p.Fn("tq", "(*adapterBase).worker")
	if w == nil {
		c.Missing("R12", "(*tq.adapterBase).worker", "not found")
		return
	}
	isGateDone := func(in ssa.Instruction) bool {
		cc := AsCall(in)
		if cc == nil || CalleeName(cc) != "(*sync.WaitGroup).Done" {
			return false
		}
		if fa, ok := cc.Args[0].(*ssa.FieldAddr); ok {
			_, f := fieldAddrName(fa)
			return f == "authWait"
		}
		_, f, _, ok := FieldOf(cc.Args[0])
		return ok && f == "authWait"
	}
	// the flag: the cell tested by the branch guarding a top-level Done
	var flag ssa.Value
	var fallback ssa.Instruction
	for _, b := range w.Blocks {
		for _, in := range b.Instrs {
			if !isGateDone(in) {
				continue
			}
			for _, dc := range decidingConds(w, b) {
				if ld, ok := dc.Cond.(*ssa.UnOp); ok && ld.Op == token.MUL && dc.Want {
					if _, isAl := ld.X.(*ssa.Alloc); isAl {
						flag, fallback = ld.X, in
					}
				}
			}
		}
	}
	if flag == nil {
		c.Bad("R12", "auth-gate:fallback", p.Pos(w.Pos()), "the worker has no fall-back authWait.Done() guarded by a `still to be released` flag that the release callback itself clears (a flag captured by the callback): if the job that got the callback fails before authentication, or no job arrives, nobody releases the gate and the other workers wait for ever")
		return
	}
	c.OK("R12", "auth-gate:fallback", p.InstrPos(fallback), "fall-back release guarded by the flag")
	sameCell := func(addr ssa.Value, fn *ssa.Function) bool {
		if addr == flag {
			return true
		}
		if fv, ok := addr.(*ssa.FreeVar); ok {
			// the closure's binding for this free variable
			for i, v := range fn.FreeVars {
				if v == fv {
					for _, r := range Referrers(fn) {
						if mc, ok := r.(*ssa.MakeClosure); ok && i < len(mc.Bindings) && mc.Bindings[i] == flag {
							return true
						}
					}
				}
			}
		}
		return false
	}
	nClear, nDone := 0, 0
	for _, fn := range WithAnon(w) {
		for _, b := range fn.Blocks {
			hasDone, clears := false, false
			var clearAt, doneAt ssa.Instruction
			for _, in := range b.Instrs {
				if isGateDone(in) {
					hasDone, doneAt = true, in
				}
				if st, ok := in.(*ssa.Store); ok && sameCell(st.Addr, fn) {
					if bv, isC := ConstBool(st.Val); isC && !bv {
						clears, clearAt = true, in
					}
				}
			}
			if clears {
				nClear++
				c.Check(hasDone, "R12", fmt.Sprintf("auth-gate:cleared-only-with-Done#%d", nClear), p.InstrPos(clearAt), "the flag is cleared where the gate is released",
					"the `gate still to be released` flag is cleared without authWait.Done() being called there: if the job that was given the release callback fails before authentication, nobody releases the gate; the other workers never finish and Wait() blocks for ever")
			}
			if hasDone {
				nDone++
				guarded := false
				if fn == w {
					for _, dc := range decidingConds(w, b) {
						if ld, ok := dc.Cond.(*ssa.UnOp); ok && ld.Op == token.MUL && ld.X == flag && dc.Want {
							guarded = true
						}
					}
				}
				c.Check(clears || guarded, "R12", fmt.Sprintf("auth-gate:Done-once#%d", nDone), p.InstrPos(doneAt), "a release clears the flag or runs only while the flag is set",
					"authWait.Done() can run without the flag recording it: the gate would be released twice (negative WaitGroup counter panic)")
			}
		}
	}
	// handing out the bare method value as the callback is a release the flag cannot see
	for _, fn := range WithAnon(w) {
		for _, b := range fn.Blocks {
			for _, in := range b.Instrs {
				if mc, ok := in.(*ssa.MakeClosure); ok {
					if f, ok := mc.Fn.(*ssa.Function); ok && strings.Contains(f.String(), "sync.WaitGroup).Done$bound") {
						c.Bad("R12", "auth-gate:release-not-tied-to-flag", p.InstrPos(in), "authWait.Done is handed out as a bare callback: the flag is no longer cleared by the release itself")
					}
				}
			}
		}
	}
	c.AtLeast("R12", "flag clearing sites", nClear, 1)
	c.AtLeast("R12", "gate release sites", nDone, 2)
}

// c06AbortableGroup (R7, the abortable wait group): Abort() zeroes the group so that Wait() returns; after that
// neither Add nor Done may touch the underlying sync.WaitGroup any more (an Add would make Wait block for an
// object nobody will ever settle, a Done would drive the counter negative). Decided: in Add and Done every change
// of the counter and of the sync.WaitGroup is guarded by `!abort`; Abort sets the flag and subtracts exactly the
// counter.
func c06AbortableGroup(c *Ctx) {
	p := c.P
	for _, name := range []string{"Add", "Done"} {
		fn := p.Fn("tq", "(*abortableWaitGroup)."+name)
		if fn == nil {
			c.Missing("R7", "(*tq.abortableWaitGroup)."+name, "not found")
			continue
		}
		pass := PassEdges(fn, func(cond ssa.Value) (bool, bool) {
			if _, f, _, ok := FieldOf(cond); ok && f == "abort" {
				return false, true
			}
			return false, false
		})
		n := 0
		for _, b := range fn.Blocks {
			for _, in := range b.Instrs {
				isSink := false
				if cc := AsCall(in); cc != nil && strings.HasPrefix(CalleeName(cc), "(*sync.WaitGroup).") {
					if _, isDefer := in.(*ssa.Defer); !isDefer {
						isSink = true
					}
				}
				if st, ok := in.(*ssa.Store); ok {
					if fa, ok := st.Addr.(*ssa.FieldAddr); ok {
						if _, f := fieldAddrName(fa); f == "counter" {
							isSink = true
						}
					}
				}
				if !isSink {
					continue
				}
				n++
				g, path := Guarded(fn.Blocks[0], in, pass, nil)
				c.Check(g && nonVacuous(pass), "R7", fmt.Sprintf("abortable-group:%s-ignored-after-abort#%d", name, n), p.InstrPos(in), "no effect once the group was aborted",
					"abortableWaitGroup."+name+" still changes the counter / the wait group after Abort(): an object added to an aborted queue makes Wait() block for ever (nothing will settle it): "+path)
			}
		}
		c.AtLeast("R7", "counter/wait-group changes in abortableWaitGroup."+name, n, 2)
	}
	if ab := p.Fn("tq", "(*abortableWaitGroup).Abort"); ab != nil {
		sets := false
		for _, b := range ab.Blocks {
			for _, in := range b.Instrs {
				if st, ok := in.(*ssa.Store); ok {
					if fa, ok := st.Addr.(*ssa.FieldAddr); ok {
						if _, f := fieldAddrName(fa); f == "abort" {
							if bv, isC := ConstBool(st.Val); isC && bv {
								sets = true
							}
						}
					}
				}
			}
		}
		c.Check(sets, "R7", "abortable-group:Abort-sets-flag", p.Pos(ab.Pos()), "Abort marks the group aborted", "Abort does not set the aborted flag")
	}
}
