package main

import (
	"fmt"
	"go/ast"
	"go/constant"
	"go/token"
	"sort"
	"strings"

	"golang.org/x/tools/go/ssa"
)

// C19 — what `git lfs track` writes means to Git exactly what the user asked.

func init() {
	register(&PropDef{
		ID:    "C19",
		Level: "other",
		Explanation: "The authority is Git's attribute parser and matcher, which is not in this repository; static analysis decides the repository-side necessary conditions on the current source: (R1) the escape tables cover the characters that end or alter a pattern token in gitattributes(5)/gitignore(5) (frozen spec table; three uncovered characters are recorded findings); (R2) unescape iterates the same table with roles swapped and both escapers treat the backslash first, per platform; (R3) untrack compares lines against every encoding track can have written; " +
			"(R4) when .gitattributes is rewritten every existing non-blank line is written back exactly once — itself, or its replacement only on a hit for that line's own pattern — and the file is truncated only after its old contents were read; (R5) `already supported` is decided by comparing the known pattern with the argument re-based to the repository root, and the attribute line written is the one Git LFS recognises as tracked. Agreement with Git's matcher for all names is a run-time (differential) fact and not decided.",
		Assumptions: []string{
			"frozen spec table from gitattributes(5): a pattern token ends at whitespace; leading # starts a comment, leading ! is reserved, leading \" starts a quoted pattern; backslash escapes; * ? [ ] are glob metacharacters",
			"strings.Replace semantics",
		},
		Run:           runC19,
		CrossPlatform: c19Escapers,
		Canaries:      c19Canaries,
	})
}

// stringMapGlobal returns the key/value pairs of a package-level map[string]string literal.
func stringMapGlobal(p *Prog, pkg, name string) (map[string]string, token.Pos, bool) {
	pk := p.byPath[PkgPath(pkg)]
	if pk == nil {
		return nil, 0, false
	}
	for _, f := range pk.Syntax {
		for _, d := range f.Decls {
			gd, ok := d.(*ast.GenDecl)
			if !ok || gd.Tok != token.VAR {
				continue
			}
			for _, sp := range gd.Specs {
				vs := sp.(*ast.ValueSpec)
				for i, n := range vs.Names {
					if n.Name != name || i >= len(vs.Values) {
						continue
					}
					cl, ok := vs.Values[i].(*ast.CompositeLit)
					if !ok {
						return nil, n.Pos(), false
					}
					out := map[string]string{}
					for _, e := range cl.Elts {
						kv, ok := e.(*ast.KeyValueExpr)
						if !ok {
							return nil, n.Pos(), false
						}
						k, ok1 := pk.TypesInfo.Types[kv.Key]
						v, ok2 := pk.TypesInfo.Types[kv.Value]
						if !ok1 || !ok2 || k.Value == nil || v.Value == nil {
							return nil, n.Pos(), false
						}
						out[constant.StringVal(k.Value)] = constant.StringVal(v.Value)
					}
					return out, n.Pos(), true
				}
			}
		}
	}
	return nil, 0, false
}

func runC19(c *Ctx) {
	insideWorkTreeNeedsSeparator(c, "R4")
	macroExpandsOnlyWhenSet(c, "R5")
	p := c.P
	trackMapKeys(c, "R4")
	blocklistLooksAtBaseName(c, "R5")
	lineEndingFallsBack(c, "R4")
	noLoopCarriedFlagInTrack(c, "R5")
	alreadySupportedMeansTracked(c, "R5")
	// ---- R1 escape coverage -----------------------------------------------------------------------
	pats, pos, ok := stringMapGlobal(p, "commands", "trackEscapePatterns")
	globs, gpos, ok2 := stringSliceGlobal(p, "commands", "trackEscapeStrings")
	if !ok || !ok2 {
		c.Missing("R1", "commands.trackEscapePatterns / trackEscapeStrings", "escape tables not found as constant literals")
	} else {
		covered := map[string]bool{`\`: true} // backslash handled by the first Replace (R2)
		for k := range pats {
			covered[k] = true
		}
		for _, g := range globs {
			covered[g] = true
		}
		spec := []struct{ ch, why string }{
			{" ", "a space ends the pattern token"},
			{"\t", "a tab ends the pattern token"},
			{"#", "a leading # makes the line a comment"},
			{"!", "a leading ! is reserved (negative patterns are forbidden in gitattributes)"},
			{`"`, "a leading double quote starts a C-quoted pattern"},
			{"*", "glob metacharacter"}, {"?", "glob metacharacter"}, {"[", "glob metacharacter"}, {"]", "glob metacharacter"},
			{`\`, "escape character"},
		}
		for _, s := range spec {
			c.Check(covered[s.ch], "R1", fmt.Sprintf("escaped(%q)", s.ch), p.Pos(pos), "character is escaped for literal file names", fmt.Sprintf("`track --filename` does not escape %q (%s): the line written does not denote the literal path", s.ch, s.why))
		}
		// token-breaking characters must be covered in pattern mode as well (the pattern table)
		for _, ch := range []string{" ", "#"} {
			_, okp := pats[ch]
			c.Check(okp, "R1", fmt.Sprintf("pattern-mode-escaped(%q)", ch), p.Pos(pos), "token-breaking character escaped in patterns", fmt.Sprintf("patterns containing %q are written unescaped", ch))
		}
		// replacement values must not themselves contain token-breaking characters
		for k, v := range pats {
			c.Check(!strings.ContainsAny(v, " \t"), "R1", fmt.Sprintf("replacement(%q)", k), p.Pos(pos), "replacement is a single token", "the replacement for "+fmt.Sprintf("%q", k)+" contains whitespace and would end the pattern token")
		}
		_ = gpos
	}
	c19Escapers(c)

	// ---- R3 track/untrack encoder agreement ----------------------------------------------------------
	tc := p.Fn("commands", "trackCommand")
	rp := p.Fn("commands", "removePath")
	if tc == nil || rp == nil {
		c.Missing("R3", "commands.trackCommand / commands.removePath", "not found")
		return
	}
	encoders := map[string]bool{}
	for _, ci := range CallsIn(tc, "commands.escapeGlobCharacters", "commands.escapeAttrPattern") {
		encoders[CalleeName(ci.Common())] = true
	}
	for e := range encoders {
		c.Check(len(CallsInDeep(rp, e)) > 0, "R3", "untrack-knows-encoding:"+e, p.Pos(rp.Pos()), "untrack recognises lines written with this encoder", "track writes lines encoded with "+e+" but untrack never compares against that encoding: such a line cannot be removed with the argument that created it")
	}
	c.AtLeast("R3", "encoders used by track", len(encoders), 2)

	// ---- R4 other lines survive ------------------------------------------------------------------------
	c19Rewrite(c, tc, "track")
	if uc := p.Fn("commands", "untrackCommand"); uc != nil {
		c19Rewrite(c, uc, "untrack")
	} else {
		c.Missing("R4", "commands.untrackCommand", "not found")
	}
	// truncate only after the old contents were read
	for _, fn := range []*ssa.Function{tc, p.Fn("commands", "untrackCommand")} {
		if fn == nil {
			continue
		}
		var read ssa.CallInstruction
		for _, ci := range CallsIn(fn, "os.ReadFile", "io.ReadAll") {
			read = ci
		}
		for _, ci := range CallsIn(fn, "os.OpenFile", "os.Create") {
			if s, ok := ConstString(ci.Common().Args[0]); !ok || s != ".gitattributes" {
				continue
			}
			good := read != nil && read.Block().Dominates(ci.Block()) && (read.Block() != ci.Block() || InstrIndex(read) < InstrIndex(ci))
			// and the read's error was examined before
			if good {
				if call, ok := read.(*ssa.Call); ok {
					tested := false
					for _, b := range fn.Blocks {
						if ifi, ok := lastInstr(b).(*ssa.If); ok {
							if e, _, ok := IsErrNilCheck(ifi.Cond); ok && ResultOfCall(e, call, 1) && b.Dominates(ci.Block()) {
								tested = true
							}
						}
					}
					good = tested
				}
			}
			c.Check(good, "R4", "truncate-after-read:"+FnName(fn), p.InstrPos(ci), ".gitattributes is truncated only after its old contents were read successfully", ".gitattributes is opened for truncation before (or without) its old contents having been read successfully: a failure in between loses every existing line")
		}
	}

	// ---- R5 idempotence guard --------------------------------------------------------------------------
	found := false
	var cmps []*ssa.BinOp
	for _, b := range tc.Blocks {
		for _, in := range b.Instrs {
			// the comparison, whether it is branched on directly or first kept in a local
			if bo, ok := in.(*ssa.BinOp); ok && (bo.Op == token.EQL || bo.Op == token.NEQ) {
				cmps = append(cmps, bo)
			}
		}
	}
	for _, ifi := range cmps {
		x, y := ifi.X, ifi.Y
		isKnown := func(v ssa.Value) bool {
			cc, _, ok := CallResult(v)
			if !ok || CalleeName(cc.Common()) != "commands.unescapeAttrPattern" {
				return false
			}
			_, f, _, isF := FieldOf(cc.Call.Args[0])
			return isF && f == "Path"
		}
		if !(isKnown(x) || isKnown(y)) {
			continue
		}
		found = true
		other := y
		if isKnown(y) {
			other = x
		}
		good := false
		if jc, _, ok := CallResult(other); ok && CalleeName(jc.Common()) == "path.Join" {
			els := variadicElems(jc.Call.Args[0])
			hasRel := false
			for _, e := range els {
				for _, l := range p.LeavesNoFields(e, func(v ssa.Value) FlowAct {
					if rc, _, ok := CallResult(v); ok && CalleeName(rc.Common()) == "path/filepath.Rel" {
						return Stop
					}
					return Descend
				}) {
					if rc, _, ok := CallResult(l); ok && CalleeName(rc.Common()) == "path/filepath.Rel" {
						hasRel = true
					}
				}
			}
			good = hasRel && len(els) == 2
		}
		c.Check(good, "R5", "already-supported:compares-root-relative-pattern", p.InstrPos(ifi), "a known pattern (root-relative) is compared with the argument re-based from the current directory", "the `already supported` test compares the known, repository-root-relative pattern with the argument without re-basing it from the current sub-directory: from a sub-directory a different pattern is taken for an existing one and nothing is written")
	}
	c.Check(found, "R5", "already-supported:test-present", p.Pos(tc.Pos()), "the idempotence test exists", "cannot find the comparison of known patterns with the argument")
	// the line written
	okLine := false
	for _, ci := range CallsIn(tc, "fmt.Sprintf") {
		if f, ok := effectiveFormat(ci); ok && strings.Contains(f, "filter=lfs") {
			okLine = strings.HasPrefix(f, "%s filter=lfs diff=lfs merge=lfs -text")
			c.Check(okLine, "R5", "attribute-line", p.InstrPos(ci), "pattern followed by filter=lfs diff=lfs merge=lfs -text", "the attribute line written is "+fmt.Sprintf("%q", f)+": Git LFS recognises a tracked pattern by filter=lfs")
		}
	}
	c.Check(okLine, "R5", "attribute-line:present", p.Pos(tc.Pos()), "line format found", "cannot find the attribute line format")
	c19MacroScope(c)
	c19UntrackSplitsLikeGit(c)
	c19ArgPrefix(c)
}

// c19Escapers (R2): per platform.
func c19Escapers(c *Ctx) {
	p := c.P
	windows := p.GOOS == "windows"
	for _, name := range []string{"escapeGlobCharacters", "escapeAttrPattern"} {
		fn := p.Fn("commands", name)
		if fn == nil {
			c.Missing("R2", "commands."+name, "not found")
			continue
		}
		var reps []ssa.CallInstruction
		live := map[*ssa.BasicBlock]bool{}
		Explore(fn.Blocks[0], nil, nil, nil, func(in ssa.Instruction, st PState) bool {
			live[in.Block()] = true
			return true
		})
		for _, b := range RPO(fn) {
			if !live[b] {
				continue // branch excluded by the constant runtime.GOOS test on this platform
			}
			for _, in := range b.Instrs {
				if cc := AsCall(in); cc != nil && nameIn(CalleeName(cc), []string{"strings.Replace", "strings.ReplaceAll"}) {
					reps = append(reps, in.(ssa.CallInstruction))
				}
			}
		}
		if len(reps) == 0 {
			c.Bad("R2", name+":backslash-first", p.Pos(fn.Pos()), "the escaper performs no replacement at all")
			continue
		}
		first := reps[0].Common().Args
		old, _ := ConstString(first[1])
		nw, _ := ConstString(first[2])
		_, fromParam := Unwrap(first[0]).(*ssa.Parameter)
		want := `\\`
		if windows {
			want = "/"
		}
		c.Check(old == `\` && nw == want && fromParam, "R2", name+":backslash-first", p.InstrPos(reps[0]), "the backslash is rewritten first ("+want+"), before any escape is added",
			fmt.Sprintf("the first replacement in %s is %q→%q instead of the backslash rule (\\→%s): backslashes in names reach .gitattributes unescaped (Git reads them as escapes), or later escapes get doubled", name, old, nw, want))
		// the table-driven replacement iterates trackEscapePatterns
		usesTable := false
		for _, l := range Loops(fn) {
			for _, lf := range p.LeavesNoFields(l.RangedOperand(), nil) {
				if g, ok := lf.(*ssa.Global); ok && g.Name() == "trackEscapePatterns" {
					usesTable = true
				}
			}
		}
		c.Check(usesTable, "R2", name+":uses-pattern-table", p.Pos(fn.Pos()), "applies the shared escape table", name+" no longer applies trackEscapePatterns")
	}
	un := p.Fn("commands", "unescapeAttrPattern")
	if un == nil {
		c.Missing("R2", "commands.unescapeAttrPattern", "not found")
		return
	}
	inverse := false
	for _, l := range Loops(un) {
		isTable := false
		for _, lf := range p.LeavesNoFields(l.RangedOperand(), nil) {
			if g, ok := lf.(*ssa.Global); ok && g.Name() == "trackEscapePatterns" {
				isTable = true
			}
		}
		if !isTable {
			continue
		}
		for b := range l.Region {
			for _, in := range b.Instrs {
				if cc := AsCall(in); cc != nil && nameIn(CalleeName(cc), []string{"strings.Replace", "strings.ReplaceAll"}) {
					// old = map value (Extract #2), new = map key (Extract #1)
					o, ok1 := cc.Args[1].(*ssa.Extract)
					n, ok2 := cc.Args[2].(*ssa.Extract)
					if ok1 && ok2 && o.Index == 2 && n.Index == 1 {
						inverse = true
					}
				}
			}
		}
	}
	c.Check(inverse, "R2", "unescape:inverse-of-table", p.Pos(un.Pos()), "unescape replaces each table value by its key", "unescapeAttrPattern does not apply trackEscapePatterns with the roles of key and value swapped")
	if !windows {
		undoes := false
		for _, ci := range CallsIn(un, "strings.Replace", "strings.ReplaceAll") {
			o, _ := ConstString(ci.Common().Args[1])
			n, _ := ConstString(ci.Common().Args[2])
			if o == `\\` && n == `\` {
				undoes = true
			}
		}
		c.Check(undoes, "R2", "unescape:undoes-backslash-doubling", p.Pos(un.Pos()), "doubled backslashes are halved again", "unescapeAttrPattern does not undo the backslash doubling of the escapers")
	}
}

// c19Rewrite: the loop that rewrites .gitattributes writes every non-blank line back exactly once.
func c19Rewrite(c *Ctx, fn *ssa.Function, label string) {
	p := c.P
	loops := Loops(fn)
	n := 0
	for li := range loops {
		l := loops[li]
		// loop driven by (*bufio.Scanner).Scan
		isScan := false
		for _, in := range l.Header.Instrs {
			if cc := AsCall(in); cc != nil && CalleeName(cc) == "(*bufio.Scanner).Scan" {
				isScan = true
			}
		}
		if !isScan {
			continue
		}
		hasWrite := false
		for b := range l.Region {
			for _, in := range b.Instrs {
				if cc := AsCall(in); cc != nil && CalleeName(cc) == "(*os.File).WriteString" {
					hasWrite = true
				}
			}
		}
		if !hasWrite {
			continue
		}
		n++
		// allowed zero-write paths: blank line (len(fields) < 1) for track; removePath()==true for untrack
		var dropEdges []Edge
		for b := range l.Region {
			ifi, ok := lastInstr(b).(*ssa.If)
			if !ok {
				continue
			}
			cond, flip := stripNot(ifi.Cond)
			drop := -1
			if op, x, y, ok := BinCmp(cond); ok {
				if k, isK := ConstInt(y); isK {
					if lc, ok := x.(*ssa.Call); ok {
						if bi, ok := lc.Call.Value.(*ssa.Builtin); ok && bi.Name() == "len" && (op == token.LSS && k == 1 || op == token.EQL && k == 0) {
							if fc, _, ok := CallResult(lc.Call.Args[0]); ok && CalleeName(fc.Common()) == "strings.Fields" {
								drop = 0
							}
						}
					}
				}
			}
			if cc, ok := cond.(*ssa.Call); ok && CalleeName(&cc.Call) == "commands.removePath" {
				drop = 0
			}
			if drop >= 0 {
				if flip {
					drop = 1 - drop
				}
				dropEdges = append(dropEdges, Edge{b, drop})
			}
		}
		good := true
		why := ""
		for _, e := range RunCount(CountQuery{Fn: fn, Entry: l.Body, Region: l.Region, Header: l.Header, NoRet: noReturnCommands, Cut: EdgeSet(dropEdges), Event: func(in ssa.Instruction) CSet {
			if cc := AsCall(in); cc != nil && CalleeName(cc) == "(*os.File).WriteString" {
				return C1
			}
			return C0
		}}) {
			if e.Kind == "noreturn" || e.Kind == "return" {
				continue
			}
			if e.Set != C1 {
				good = false
				why = fmt.Sprintf("an existing line is written back %s times on the path ending in %s", e.Set, e.Desc(p))
			}
		}
		c.Check(good, "R4", label+":each-line-written-once", p.InstrPos(firstPositioned(l.Body)), "every existing line that is not blank (or removed by request) is written back exactly once", why+": attribute assignments of other patterns are lost or duplicated")
		// the unchanged write carries the scanned line; the replacement only on a hit for the line's own pattern
		var keys []string
		for b := range l.Region {
			for _, in := range b.Instrs {
				cc := AsCall(in)
				if cc == nil || CalleeName(cc) != "(*os.File).WriteString" {
					continue
				}
				arg := cc.Args[1]
				fromLine, fromMap := false, false
				if ex, ok := Unwrap(arg).(*ssa.Extract); ok {
					if _, isLk := ex.Tuple.(*ssa.Lookup); isLk {
						fromMap = true
					}
				}
				if _, ok := Unwrap(arg).(*ssa.Lookup); ok {
					fromMap = true
				}
				// line (+ line ending)
				left := Unwrap(arg)
				for {
					bo, ok := left.(*ssa.BinOp)
					if !ok || bo.Op != token.ADD {
						break
					}
					left = Unwrap(bo.X)
				}
				if sc, _, ok := CallResult(left); ok && CalleeName(sc.Common()) == "(*bufio.Scanner).Text" {
					fromLine = true
				}
				switch {
				case fromMap:
					keys = append(keys, "replacement")
					// guarded by the ok of the same lookup
					var lk *ssa.Lookup
					if ex, ok := Unwrap(arg).(*ssa.Extract); ok {
						lk, _ = ex.Tuple.(*ssa.Lookup)
					}
					pass := PassEdges(fn, func(cond ssa.Value) (bool, bool) {
						if ex, ok := cond.(*ssa.Extract); ok && ex.Index == 1 && lk != nil && ex.Tuple == ssa.Value(lk) {
							return true, true
						}
						return false, false
					})
					g, _ := Guarded(l.Body, in, pass, nil)
					// and the lookup key derives from this line's first field
					keyOK := false
					if lk != nil {
						for _, lf := range p.LeavesNoFields(lk.Index, func(v ssa.Value) FlowAct {
							if sc, _, ok := CallResult(v); ok && CalleeName(sc.Common()) == "(*bufio.Scanner).Text" {
								return Stop
							}
							return Descend
						}) {
							if sc, _, ok := CallResult(lf); ok && CalleeName(sc.Common()) == "(*bufio.Scanner).Text" {
								keyOK = true
							}
						}
					}
					c.Check(g && nonVacuous(pass) && keyOK, "R4", label+":replacement-only-on-hit", p.InstrPos(in), "a line is replaced only when its own pattern is among the changed ones", "an existing line can be replaced although its own pattern was not changed")
				case fromLine:
					keys = append(keys, "unchanged")
				default:
					c.Bad("R4", label+":rewrite-writes-foreign-text", p.InstrPos(in), "the rewrite loop writes text that is neither the scanned line nor its replacement")
				}
			}
		}
		sort.Strings(keys)
		hasUnchanged := false
		for _, k := range keys {
			if k == "unchanged" {
				hasUnchanged = true
			}
		}
		c.Check(hasUnchanged, "R4", label+":unchanged-lines-kept", p.InstrPos(firstPositioned(l.Body)), "unchanged lines are written back verbatim", "the rewrite loop never writes an existing line back unchanged")
	}
	c.AtLeast("R4", "rewrite loops in "+label, n, 1)
}

var c19Canaries = []Canary{
	{Name: "r7-macro-expanded-when-unset", ExpectKey: "C19.R5#macro", Edits: []Edit{{File: "git/gitattr/macro.go", Find: "\n\t\t\tresultLine := &patternLine{l.Pattern(), lineAttrs}\n\t\t\tfor _, attr := range l.Attrs() {\n\t\t\t\tmacros := mp.macros[attr.K]\n\t\t\t\tif attr.V == \"true\" && macros != nil {\n\t\t\t\t\tresultLine.attrs = append(\n\t\t\t\t\t\tresultLine.attrs,\n\t\t\t\t\t\tmacros...,\n\t\t\t\t\t)\n\t\t\t\t} else if attr.Unspecified && macros != nil {\n\t\t\t\t\tfor _, m := range macros {\n\t\t\t\t\t\tresultLine.attrs = append(\n\t\t\t\t\t\t\tresultLine.attrs,\n\t\t\t\t\t\t\t&Attr{\n\t\t\t\t\t\t\t\tK:           m.K,\n\t\t\t\t\t\t\t\tUnspecified: true,\n\t\t\t\t\t\t\t},\n\t\t\t\t\t\t)\n\t\t\t\t\t}\n\t\t\t\t}\n", Repl: "\n\t\t\tresultLine := &patternLine{l.Pattern(), lineAttrs}\n\t\t\tfor _, attr := range l.Attrs() {\n\t\t\t\tif macros := mp.macros[attr.K]; macros != nil {\n\t\t\t\t\tif attr.Unspecified {\n\t\t\t\t\t\tfor _, m := range macros {\n\t\t\t\t\t\t\tresultLine.attrs = append(\n\t\t\t\t\t\t\t\tresultLine.attrs,\n\t\t\t\t\t\t\t\t&Attr{\n\t\t\t\t\t\t\t\t\tK:           m.K,\n\t\t\t\t\t\t\t\t\tUnspecified: true,\n\t\t\t\t\t\t\t\t},\n\t\t\t\t\t\t\t)\n\t\t\t\t\t\t}\n\t\t\t\t\t} else {\n\t\t\t\t\t\tresultLine.attrs = append(\n\t\t\t\t\t\t\tresultLine.attrs,\n\t\t\t\t\t\t\tmacros...,\n\t\t\t\t\t\t)\n\t\t\t\t\t}\n\t\t\t\t}\n"}}},
	{Name: "r7-work-tree-prefix-only", ExpectKey: "C19.R4#work-tree", Edits: []Edit{{File: "commands/commands.go", Find: "\t// If the current working directory is not within the repository's\n\t// working directory, then let's change directories accordingly.  This\n\t// should only occur if GIT_WORK_TREE is set.\n\tif !(strings.HasPrefix(cwd, workingDir) && (cwd == workingDir || (len(cwd) > len(workingDir) && cwd[len(workingDir)] == os.PathSeparator))) {\n\t\tos.Chdir(workingDir)\n\t}\n}\n", Repl: "\t// If the current working directory is not within the repository's\n\t// working directory, then let's change directories accordingly.  This\n\t// should only occur if GIT_WORK_TREE is set.\n\tif !strings.HasPrefix(cwd, workingDir) {\n\t\tos.Chdir(workingDir)\n\t}\n}\n"}}},
	{Name: "r6-already-supported-ignores-filter", ExpectKey: "C19.R5#track:already-supported-only-if-tracked", Edits: []Edit{{File: "commands/command_track.go", Find: "\n\t\tif !trackNoModifyAttrsFlag {\n\t\t\tfor _, known := range knownPatterns {\n\t\t\t\tif known.Tracked && // a line that does not assign the LFS filter needs replacing\n\t\t\t\t\tunescapeAttrPattern(known.Path) == path.Join(relpath, pattern) &&\n\t\t\t\t\t((trackLockableFlag && known.Lockable) || // enabling lockable & already lockable (no change)\n\t\t\t\t\t\t(trackNotLockableFlag && !known.Lockable) || // disabling lockable & not lockable (no change)\n\t\t\t\t\t\t(!trackLockableFlag && !trackNotLockableFlag)) { // leave lockable as-is in all cases\n", Repl: "\n\t\tif !trackNoModifyAttrsFlag {\n\t\t\tfor _, known := range knownPatterns {\n\t\t\t\tif unescapeAttrPattern(known.Path) == path.Join(relpath, pattern) &&\n\t\t\t\t\t((trackLockableFlag && known.Lockable) || // enabling lockable & already lockable (no change)\n\t\t\t\t\t\t(trackNotLockableFlag && !known.Lockable) || // disabling lockable & not lockable (no change)\n\t\t\t\t\t\t(!trackLockableFlag && !trackNotLockableFlag)) { // leave lockable as-is in all cases\n"}}},
	{Name: "r6-track-decision-carried-over", ExpectKey: "C19.R5#track:per-argument-decisions", Edits: []Edit{{File: "commands/command_track.go", Find: "\tchangedAttribLines := make(map[string]string)\n\tvar readOnlyPatterns []string\n\tvar writeablePatterns []string\nArgsLoop:\n\tfor _, unsanitizedPattern := range args {\n\t\tpattern := tools.TrimCurrentPrefix(cleanRootPath(unsanitizedPattern))\n\n", Repl: "\tchangedAttribLines := make(map[string]string)\n\tvar readOnlyPatterns []string\n\tvar writeablePatterns []string\n\tvar alreadySupported bool\n\tfor _, unsanitizedPattern := range args {\n\t\tpattern := tools.TrimCurrentPrefix(cleanRootPath(unsanitizedPattern))\n\n"}, {File: "commands/command_track.go", Find: "\t\t\t\t\t((trackLockableFlag && known.Lockable) || // enabling lockable & already lockable (no change)\n\t\t\t\t\t\t(trackNotLockableFlag && !known.Lockable) || // disabling lockable & not lockable (no change)\n\t\t\t\t\t\t(!trackLockableFlag && !trackNotLockableFlag)) { // leave lockable as-is in all cases\n\t\t\t\t\tPrint(tr.Tr.Get(\"%q already supported\", pattern))\n\t\t\t\t\tcontinue ArgsLoop\n\t\t\t\t}\n\t\t\t}\n\t\t}\n\n\t\tlockableArg := \"\"\n\t\tif trackLockableFlag { // no need to test trackNotLockableFlag, if we got here we're disabling\n", Repl: "\t\t\t\t\t((trackLockableFlag && known.Lockable) || // enabling lockable & already lockable (no change)\n\t\t\t\t\t\t(trackNotLockableFlag && !known.Lockable) || // disabling lockable & not lockable (no change)\n\t\t\t\t\t\t(!trackLockableFlag && !trackNotLockableFlag)) { // leave lockable as-is in all cases\n\t\t\t\t\talreadySupported = true\n\t\t\t\t\tbreak\n\t\t\t\t}\n\t\t\t}\n\t\t}\n\t\tif alreadySupported {\n\t\t\tPrint(tr.Tr.Get(\"%q already supported\", pattern))\n\t\t\tcontinue\n\t\t}\n\n\t\tlockableArg := \"\"\n\t\tif trackLockableFlag { // no need to test trackNotLockableFlag, if we got here we're disabling\n"}}},
	{Name: "r5-empty-line-ending-kept", ExpectKey: "C19.R4#track:empty-line-ending", Edits: []Edit{{File: "commands/command_track.go", Find: "\tif len(lineEnd) == 0 {\n\t\tlineEnd = gitLineEnding(cfg.Git)\n\t}\n", Repl: ""}}},
	{Name: "r4-delete-under-other-key", ExpectKey: "C19.R4#track:replaced", Edits: []Edit{{File: "commands/command_track.go", Find: "delete(changedAttribLines, pattern)", Repl: "delete(changedAttribLines, fields[0])"}}},
	{Name: "drop-hash-escape", ExpectKey: "C19.R1#escaped(\"#\")", Edits: []Edit{{File: "commands/command_track.go", Find: "		\"#\": \"\\\\#\",\n", Repl: ""}}},
	{Name: "backslash-last", ExpectKey: "C19.R2#escapeAttrPattern:backslash-first", Edits: []Edit{{File: "commands/command_track.go", Find: "func escapeAttrPattern(s string) string {\n	var escaped string\n	if runtime.GOOS == \"windows\" {\n		escaped = strings.Replace(s, `\\`, \"/\", -1)\n	} else {\n		escaped = strings.Replace(s, `\\`, `\\\\`, -1)\n	}\n\n	for from, to := range trackEscapePatterns {\n		escaped = strings.Replace(escaped, from, to, -1)\n	}\n\n	return escaped", Repl: "func escapeAttrPattern(s string) string {\n	escaped := s\n	for from, to := range trackEscapePatterns {\n		escaped = strings.Replace(escaped, from, to, -1)\n	}\n	if runtime.GOOS == \"windows\" {\n		escaped = strings.Replace(escaped, `\\`, \"/\", -1)\n	} else {\n		escaped = strings.Replace(escaped, `\\`, `\\\\`, -1)\n	}\n\n	return escaped"}}},
	{Name: "backslash-toslash", ExpectKey: "C19.R2#escapeGlobCharacters:backslash-first", Edits: []Edit{{File: "commands/command_track.go", Find: "func escapeGlobCharacters(s string) string {\n	var escaped string\n	if runtime.GOOS == \"windows\" {\n		escaped = strings.Replace(s, `\\`, \"/\", -1)\n	} else {\n		escaped = strings.Replace(s, `\\`, `\\\\`, -1)\n	}", Repl: "func escapeGlobCharacters(s string) string {\n	escaped := filepath.ToSlash(s)"}}},
	{Name: "unescape-not-inverse", ExpectKey: "C19.R2#unescape:inverse-of-table", Edits: []Edit{{File: "commands/command_track.go", Find: "	for to, from := range trackEscapePatterns {\n		unescaped = strings.Replace(unescaped, from, to, -1)\n	}", Repl: "	for from, to := range trackEscapePatterns {\n		unescaped = strings.Replace(unescaped, from, to, -1)\n	}"}}},
	{Name: "untrack-single-encoding", ExpectKey: "C19.R3#untrack-knows-encoding", Edits: []Edit{{File: "commands/command_untrack.go", Find: "		if withoutCurrentDir == escapeAttrPattern(arg) ||\n			withoutCurrentDir == escapeGlobCharacters(arg) {", Repl: "		if withoutCurrentDir == escapeAttrPattern(arg) {"}}},
	{Name: "drop-unchanged-lines", ExpectKey: "C19.R4#track:each-line-written-once", Edits: []Edit{{File: "commands/command_track.go", Find: "				} else {\n					// Write line unchanged (replace newline)\n					attributesFile.WriteString(line + lineEnd)\n				}", Repl: "				} else if strings.Contains(line, \"filter=lfs\") {\n					// Write line unchanged (replace newline)\n					attributesFile.WriteString(line + lineEnd)\n				}"}}},
	{Name: "truncate-before-read", ExpectKey: "C19.R4#truncate-after-read", Edits: []Edit{{File: "commands/command_untrack.go", Find: "	data, err := os.ReadFile(\".gitattributes\")\n	if err != nil {\n		return\n	}\n\n	attributes := strings.NewReader(string(data))\n\n	attributesFile, err := os.Create(\".gitattributes\")\n	if err != nil {\n		Print(tr.Tr.Get(\"Error opening '.gitattributes' for writing\"))\n		return\n	}", Repl: "	data, _ := os.ReadFile(\".gitattributes\")\n\n	attributes := strings.NewReader(string(data))\n\n	attributesFile, err := os.Create(\".gitattributes\")\n	if err != nil {\n		Print(tr.Tr.Get(\"Error opening '.gitattributes' for writing\"))\n		return\n	}"}}},
	{Name: "already-supported-ignores-subdir", ExpectKey: "C19.R5#already-supported", Edits: []Edit{{File: "commands/command_track.go", Find: "				if unescapeAttrPattern(known.Path) == path.Join(relpath, pattern) &&", Repl: "				if unescapeAttrPattern(known.Path) == path.Clean(pattern) &&"}}},
	{Name: "wrong-attribute-line", ExpectKey: "C19.R5#attribute-line", Edits: []Edit{{File: "commands/command_track.go", Find: "\"%s filter=lfs diff=lfs merge=lfs -text%v%s\"", Repl: "\"%s diff=lfs merge=lfs filter=lfs -text%v%s\""}}},
}

// effectiveFormat returns the format of a fmt.Sprintf call with the %s / %v verbs whose operand is a constant
// string replaced by that constant (so that `Sprintf("%s %s", x, constAttrs)` reads like "%s <attrs>").
func effectiveFormat(ci ssa.CallInstruction) (string, bool) {
	args := ci.Common().Args
	if len(args) == 0 {
		return "", false
	}
	f, ok := ConstString(args[0])
	if !ok {
		return "", false
	}
	var ops []ssa.Value
	if len(args) > 1 {
		ops = variadicOrdered(args[1])
	}
	var out strings.Builder
	ai := 0
	for i := 0; i < len(f); i++ {
		if f[i] != '%' || i+1 >= len(f) {
			out.WriteByte(f[i])
			continue
		}
		if f[i+1] == '%' {
			out.WriteString("%%")
			i++
			continue
		}
		verb := f[i+1]
		if (verb == 's' || verb == 'v') && ai < len(ops) {
			if s, isC := ConstString(Unwrap(ops[ai])); isC {
				out.WriteString(s)
				ai++
				i++
				continue
			}
		}
		if verb == 's' || verb == 'v' || verb == 'd' || verb == 'q' {
			ai++
		}
		out.WriteByte('%')
		out.WriteByte(verb)
		i++
	}
	return out.String(), true
}

// variadicOrdered lists the elements stored into the backing array of a variadic argument, by index.
func variadicOrdered(v ssa.Value) []ssa.Value {
	sl, ok := v.(*ssa.Slice)
	if !ok {
		return nil
	}
	al, ok := sl.X.(*ssa.Alloc)
	if !ok {
		return nil
	}
	byIdx := map[int64]ssa.Value{}
	var max int64 = -1
	for _, r := range Referrers(al) {
		if ia, ok := r.(*ssa.IndexAddr); ok {
			k, isK := ConstInt(ia.Index)
			if !isK {
				continue
			}
			for _, rr := range Referrers(ia) {
				if st, ok := rr.(*ssa.Store); ok && st.Addr == ia {
					byIdx[k] = st.Val
					if k > max {
						max = k
					}
				}
			}
		}
	}
	var out []ssa.Value
	for i := int64(0); i <= max; i++ {
		out = append(out, byIdx[i])
	}
	return out
}

// c19MacroScope (R6): Git reads [attr] macro definitions only from the top-level .gitattributes (and the info, global
// and system files), never from a .gitattributes in a sub-directory. `track` decides "already supported" from the
// attributes Git LFS computes itself, so it must scope macros the same way: for the files discovered in the working
// tree the read-macros flag is the test `path == ".gitattributes"` (repository-relative path, not base name).
func c19MacroScope(c *Ctx) {
	p := c.P
	fn := p.Fn("git", "findAttributeFiles")
	if fn == nil {
		c.Missing("R6", "git.findAttributeFiles", "not found")
		return
	}
	loops := Loops(fn)
	n := 0
	for _, b := range fn.Blocks {
		for _, in := range b.Instrs {
			st, ok := in.(*ssa.Store)
			if !ok {
				continue
			}
			fa, ok := st.Addr.(*ssa.FieldAddr)
			if !ok {
				continue
			}
			if t, f := fieldAddrName(fa); t != "git.attrFile" || f != "readMacros" {
				continue
			}
			n++
			if LoopOf(loops, b) == nil {
				bv, isC := ConstBool(st.Val)
				c.Check(isC && bv, "R6", fmt.Sprintf("macros:fixed-file#%d", n), p.InstrPos(st), "info/global/system attribute files may define macros", "the macro flag of a fixed attributes file is not the constant true")
				continue
			}
			good := false
			if op, x, y, ok := BinCmp(st.Val); ok && op == token.EQL {
				for _, pr := range [][2]ssa.Value{{x, y}, {y, x}} {
					if _, f, _, isF := FieldOf(pr[0]); isF && f == "FullPath" {
						if s, isS := ConstString(pr[1]); isS && s == ".gitattributes" {
							good = true
						}
					}
				}
			}
			c.Check(good, "R6", fmt.Sprintf("macros:top-level-only#%d", n), p.InstrPos(st), "working-tree attribute files define macros only at the top level (full path == .gitattributes)",
				"macro definitions are read from .gitattributes files below the top level ("+describeValue(p, st.Val)+"): Git ignores [attr] lines there, so Git LFS takes a pattern for tracked (`already supported`) that Git does not")
		}
	}
	c.AtLeast("R6", "stores of the read-macros flag", n, 2)
}

// c19ArgPrefix (R7): the pattern written is the argument minus one leading "./" (or ".\\"): the helper that removes
// the current-directory prefix returns its argument or strings.TrimPrefix of it by that constant prefix — not a
// cut-set trim, which eats every leading '.' and '/' ("/x" loses its anchoring, ".cache" its dot).
func c19ArgPrefix(c *Ctx) {
	p := c.P
	fn := p.Fn("tools", "TrimCurrentPrefix")
	if fn == nil {
		c.Missing("R7", "tools.TrimCurrentPrefix", "not found")
		return
	}
	n := 0
	for _, r := range ReturnsOf(fn) {
		for _, v := range ReturnValues(r, 0) {
			n++
			ok := false
			what := describeValue(p, v)
			if _, isP := Unwrap(v).(*ssa.Parameter); isP {
				ok = true
			}
			if cc, idx, isRes := CallResult(v); isRes {
				what = CalleeName(cc.Common())
				// strings.CutPrefix's first result is strings.TrimPrefix's result
				if what == "strings.TrimPrefix" || what == "strings.CutPrefix" && idx == 0 {
					if _, isP := Unwrap(cc.Call.Args[0]).(*ssa.Parameter); isP {
						if s, isS := ConstString(cc.Call.Args[1]); isS && (s == "./" || s == ".\\") {
							ok = true
						}
					}
				}
			}
			c.Check(ok, "R7", fmt.Sprintf("arg-normalisation:one-prefix-only#%d", n), p.InstrPos(r), "removes exactly one leading ./ or .\\", "the current-directory prefix is removed with "+what+": more than one leading \"./\" — e.g. every leading '.' and '/' — is taken off the pattern, so `/x` is written unanchored and `.dir/x` as `dir/x`")
		}
	}
	c.AtLeast("R7", "results of TrimCurrentPrefix", n, 1)
	// and track/untrack normalise their arguments through it
	for _, name := range []string{"trackCommand", "removePath"} {
		f := p.Fn("commands", name)
		if f == nil {
			continue
		}
		c.Check(len(CallsInDeep(f, "tools.TrimCurrentPrefix")) > 0, "R7", "arg-normalisation:used-by:"+name, p.Pos(f.Pos()), "arguments are normalised with TrimCurrentPrefix", name+" no longer normalises its argument with TrimCurrentPrefix")
	}
}

// c19UntrackSplitsLikeGit (R3, reading existing lines): Git separates the pattern of an attribute line from its
// attributes by any run of blanks or tabs, and ignores leading blanks. untrack takes the pattern of a line with the
// same notion of white space (strings.Fields) — cutting at the first space only misses tab-separated and indented
// lines, which then silently survive an untrack.
func c19UntrackSplitsLikeGit(c *Ctx) {
	p := c.P
	fn := p.Fn("commands", "untrackCommand")
	if fn == nil {
		c.Missing("R3", "commands.untrackCommand", "not found")
		return
	}
	rp := CallsInDeep(fn, "commands.removePath")
	if len(rp) == 0 {
		c.Missing("R3", "removePath call in untrackCommand", "not found")
		return
	}
	for i, ci := range rp {
		arg := ci.Common().Args[0]
		how := ""
		good := false
		for _, l := range p.LeavesNoFields(arg, func(v ssa.Value) FlowAct {
			if cc, _, ok := CallResult(v); ok && strings.HasPrefix(CalleeName(cc.Common()), "strings.") {
				return Stop
			}
			return Descend
		}) {
			if cc, _, ok := CallResult(l); ok {
				how = CalleeName(cc.Common())
				if how == "strings.Fields" {
					good = true
				} else if strings.HasPrefix(how, "strings.Split") || how == "strings.Cut" || how == "strings.Index" {
					good = false
					break
				}
			}
		}
		c.Check(good, "R3", fmt.Sprintf("untrack:pattern-of-a-line-is-its-first-field#%d", i), p.InstrPos(ci), "the pattern of an existing line is its first white-space separated field",
			"untrack takes the pattern of an existing .gitattributes line with "+how+" instead of splitting on any white space: a tab-separated or indented line is never matched, the line stays and Git keeps applying the filter")
	}
}
