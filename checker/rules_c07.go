package main

import (
	"encoding/json"
	"fmt"
	"go/ast"
	"go/constant"
	"go/token"
	"os"
	"os/exec"
	"path/filepath"
	"regexp"
	"regexp/syntax"
	"sort"
	"strconv"
	"strings"

	"golang.org/x/tools/go/ssa"
)

// C07 — pointer text has one canonical encoding and a strict, total decoder.

func init() {
	register(&PropDef{
		ID:    "C07",
		Level: "other",
		Explanation: "Decides on the current source of lfs/pointer.go: (R1) the OID pattern denotes exactly 64 lower-case hex digits anchored at both ends and parseOid succeeds only through it and the sha256 type tag; (R2) decodeKV returns a pointer only after version, oid, size (strconv.ParseInt base 10/64 bits, tested non-negative) and every extension passed their checks, duplicate priorities are refused and extensions sorted ascending; (R3) keys are accepted only in the fixed order version, oid, size with the line counter advanced exactly when a key is stored; " +
			"(R4) the canonical flag is computed exactly once from Encoded() == the untrimmed bytes read, and the empty-pointer shortcut is taken only for zero bytes read; (R5) the encoder writes version, extensions, oid, size in this order, one LF-terminated line each, with the latest version alias; (R6) panic-freedom of the decoder region: no explicit panic or unchecked type assertion, no write to a possibly-nil map, and every bounds check the compiler could not eliminate (its own BCE report) is discharged by a dominating length test or a documented contract. Round-trip equality of values is a run-time fact and is not decided.",
		Assumptions: []string{
			"regexp/syntax parses patterns as package regexp does; strconv.ParseInt reports overflow as an error",
			"io.ReadFull returns n <= len(buf); sort.Sort passes indices within [0, Len())",
		},
		Run:      runC07,
		Canaries: c07Canaries,
	})
}

// globalInitCall finds `var name = pkg.Fn(args...)` and returns the constant string arguments.
func globalInitStrings(p *Prog, pkg, name string) ([]string, token.Pos, bool) {
	pk := p.byPath[PkgPath(pkg)]
	if pk == nil {
		return nil, 0, false
	}
	for _, f := range pk.Syntax {
		for _, d := range f.Decls {
			gd, ok := d.(*ast.GenDecl)
			if !ok || gd.Tok != token.VAR {
				continue
			}
			for _, sp := range gd.Specs {
				vs := sp.(*ast.ValueSpec)
				for i, n := range vs.Names {
					if n.Name != name || i >= len(vs.Values) {
						continue
					}
					var out []string
					collect := func(e ast.Expr) bool {
						tv, ok := pk.TypesInfo.Types[e]
						if ok && tv.Value != nil && tv.Value.Kind() == constant.String {
							out = append(out, constant.StringVal(tv.Value))
							return true
						}
						return false
					}
					switch v := vs.Values[i].(type) {
					case *ast.CallExpr:
						for _, a := range v.Args {
							collect(a)
						}
					case *ast.CompositeLit:
						for _, e := range v.Elts {
							collect(e)
						}
					default:
						collect(v)
					}
					return out, n.Pos(), true
				}
			}
		}
	}
	return nil, 0, false
}

// isExactHex64 decides whether the pattern denotes exactly [0-9a-f]{64} anchored at both ends.
func isExactHex64(pat string) (bool, string) {
	re, err := syntax.Parse(pat, syntax.Perl)
	if err != nil {
		return false, "pattern does not parse: " + err.Error()
	}
	re = re.Simplify()
	// Simplify expands x{64} into a concatenation; work on the unsimplified tree instead
	re, _ = syntax.Parse(pat, syntax.Perl)
	if re.Op != syntax.OpConcat || len(re.Sub) != 3 {
		return false, "pattern is not <begin-text><class>{64}<end-text>"
	}
	if re.Sub[0].Op != syntax.OpBeginText {
		return false, "pattern is not anchored at the beginning of the text"
	}
	if re.Sub[2].Op != syntax.OpEndText {
		return false, "pattern is not anchored at the end of the text"
	}
	rep := re.Sub[1]
	if rep.Op != syntax.OpRepeat || rep.Min != 64 || rep.Max != 64 {
		return false, "pattern does not repeat exactly 64 times"
	}
	cc := rep.Sub[0]
	if cc.Op != syntax.OpCharClass {
		return false, "repeated element is not a character class"
	}
	want := []rune{'0', '9', 'a', 'f'}
	if len(cc.Rune) != len(want) {
		return false, fmt.Sprintf("character class is %q, not [0-9a-f]", string(cc.Rune))
	}
	for i := range want {
		if cc.Rune[i] != want[i] {
			return false, fmt.Sprintf("character class is %q, not [0-9a-f]", string(cc.Rune))
		}
	}
	return true, ""
}

func errNilPass(fn *ssa.Function, call *ssa.Call) []Edge {
	return PassEdges(fn, func(cond ssa.Value) (bool, bool) {
		e, trueMeansNil, ok := IsErrNilCheck(cond)
		if ok {
			if cc, _, isRes := CallResult(e); isRes && cc == call {
				return trueMeansNil, true
			}
		}
		return false, false
	})
}

func runC07(c *Ctx) {
	decodeFromFillsPrefix(c, "R7")
	extensionKeySplit(c, "R2")
	decodeOnlyThroughDecodeFrom(c, "R3")
	c07OidRule(c)
	c07DecodeKV(c)
	c07KeyOrder(c)
	c07Canonical(c)
	c07Encoder(c)
	c07NoPanic(c)
	// what is decoded at all — the size cutoff in front of the decoders, the sniffing of clean — decides which byte
	// strings reach the grammar (C08's rules), and clean is the one producer of extension lines (C01.R10)
	saved := c.RulePrefix
	c.RulePrefix = saved + "C08/"
	runC08(c)
	c.RulePrefix = saved + "C01/"
	c01ExtensionNumbering(c)
	c.RulePrefix = saved
}

// c07OidRule (R1): the OID language and its use in parseOid (shared with C08: what is not an OID is not a pointer).
func c07OidRule(c *Ctx) {
	p := c.P
	// ---- R1 ---------------------------------------------------------------------------------
	pats, pos, ok := globalInitStrings(p, "lfs", "oidRE")
	if !ok || len(pats) != 1 {
		c.Missing("R1", "lfs.oidRE", "OID pattern not found as regexp.MustCompile(<constant>)")
	} else {
		good, why := isExactHex64(pats[0])
		c.Check(good, "R1", "oidRE-language", p.Pos(pos), "pattern denotes exactly 64 lower-case hex digits, anchored at both ends", "the OID pattern "+strconv.Quote(pats[0])+" is not exactly \\A[0-9a-f]{64}\\z: "+why)
	}
	if t, _, ok := globalInitStrings(p, "lfs", "oidType"); !ok || len(t) != 1 || t[0] != "sha256" {
		c.Bad("R1", "oidType", "-", "the OID type tag is not the constant \"sha256\"")
	} else {
		c.OK("R1", "oidType", "-", "type tag is sha256")
	}
	// every regexp.MustCompile at package level in lfs compiles
	if pk := p.byPath[PkgPath("lfs")]; pk != nil {
		for _, name := range []string{"oidRE", "matcherRE", "extRE"} {
			if ps, pos, ok := globalInitStrings(p, "lfs", name); ok && len(ps) == 1 {
				_, err := regexp.Compile(ps[0])
				c.Check(err == nil, "R6", "regexp-compiles:"+name, p.Pos(pos), "pattern compiles (MustCompile cannot panic at start-up)", "regexp.MustCompile would panic at start-up")
			}
		}
	}
	po := p.Fn("lfs", "parseOid")
	if po == nil {
		c.Missing("R1", "lfs.parseOid", "not found")
	} else {
		for _, r := range ReturnsOf(po) {
			if !IsNilConst(r.Results[1]) {
				continue
			}
			// pass edge: oidRE.MatchString(v) true with v == returned value
			passRE := PassEdges(po, func(cond ssa.Value) (bool, bool) {
				call, ok := cond.(*ssa.Call)
				if !ok || CalleeName(&call.Call) != "(*regexp.Regexp).MatchString" {
					return false, false
				}
				isOidRE := false
				if u, ok := call.Call.Args[0].(*ssa.UnOp); ok {
					if g, ok := u.X.(*ssa.Global); ok && g.Name() == "oidRE" {
						isOidRE = true
					}
				}
				if isOidRE && SameValue(call.Call.Args[1], r.Results[0]) {
					return true, true
				}
				return false, false
			})
			passType := PassEdges(po, func(cond ssa.Value) (bool, bool) {
				op, x, y, ok := BinCmp(cond)
				if !ok || (op != token.EQL && op != token.NEQ) {
					return false, false
				}
				isTag := func(v ssa.Value) bool {
					if u, ok := v.(*ssa.UnOp); ok {
						if g, ok := u.X.(*ssa.Global); ok && g.Name() == "oidType" {
							return true
						}
					}
					if s, isC := ConstString(v); isC && s == "sha256" {
						return true
					}
					// the tag handed in by every caller of this private function
					if prm, isP := v.(*ssa.Parameter); isP {
						args := p.callerArgs(prm)
						for _, a := range args {
							if u, ok := a.(*ssa.UnOp); ok {
								if g, ok := u.X.(*ssa.Global); ok && g.Name() == "oidType" {
									continue
								}
							}
							if s, isC := ConstString(a); isC && s == "sha256" {
								continue
							}
							return false
						}
						return len(args) > 0
					}
					return false
				}
				if isTag(x) || isTag(y) {
					return op == token.EQL, true
				}
				return false, false
			})
			ok1, p1 := Guarded(po.Blocks[0], r, passRE, nil)
			ok2, p2 := Guarded(po.Blocks[0], r, passType, nil)
			c.Check(ok1 && nonVacuous(passRE), "R1", "parseOid:matches-pattern", p.InstrPos(r), "an oid is returned only when that same string matched the OID pattern", "parseOid can return an oid that did not pass the OID pattern: "+p1)
			c.Check(ok2 && nonVacuous(passType), "R1", "parseOid:sha256-tag", p.InstrPos(r), "an oid is returned only for the sha256 type tag", "parseOid can return an oid without the sha256 type tag: "+p2)
		}
	}
}

func c07DecodeKV(c *Ctx) {
	p := c.P
	fn := p.Fn("lfs", "decodeKV")
	if fn == nil {
		c.Missing("R2", "lfs.decodeKV", "not found")
		return
	}
	var rets []*ssa.Return
	for _, r := range ReturnsOf(fn) {
		if !IsNilConst(r.Results[0]) {
			rets = append(rets, r)
		}
	}
	if !c.AtLeast("R2", "pointer-returning exits of decodeKV", len(rets), 1) {
		return
	}
	findCall := func(name string) *ssa.Call {
		for _, ci := range CallsIn(fn, name) {
			if call, ok := ci.(*ssa.Call); ok {
				return call
			}
		}
		return nil
	}
	for _, r := range rets {
		// the returned pointer is NewPointer(oid, size, extensions)
		np, _, ok := CallResult(r.Results[0])
		if !ok || CalleeName(np.Common()) != "lfs.NewPointer" {
			c.Undecided("R2", "decodeKV:result", p.InstrPos(r), "the returned pointer is not built by NewPointer")
			continue
		}
		oidArg, sizeArg, extArg := LiveValue(np.Call.Args[0]), LiveValue(np.Call.Args[1]), LiveValue(np.Call.Args[2])
		// version
		vv := findCall("lfs.verifyVersion")
		if vv == nil {
			c.Bad("R2", "decodeKV:version", p.InstrPos(r), "the version line is not verified")
		} else {
			pass := PassEdges(fn, func(cond ssa.Value) (bool, bool) {
				e, trueMeansNil, ok := IsErrNilCheck(cond)
				if ok && Unwrap(e) == ssa.Value(vv) {
					return trueMeansNil, true
				}
				return false, false
			})
			ok, path := Guarded(fn.Blocks[0], r, pass, nil)
			c.Check(ok && nonVacuous(pass), "R2", "decodeKV:version", p.InstrPos(r), "pointer returned only after the version was accepted", "a pointer can be returned without an accepted version line: "+path)
		}
		// oid
		oc, idx, isRes := CallResult(oidArg)
		if !isRes || CalleeName(oc.Common()) != "lfs.parseOid" || idx != 0 {
			c.Bad("R2", "decodeKV:oid", p.InstrPos(r), "the pointer's oid is not the result of parseOid")
		} else {
			pass := errNilPass(fn, oc)
			ok, path := Guarded(fn.Blocks[0], r, pass, nil)
			c.Check(ok && nonVacuous(pass), "R2", "decodeKV:oid", p.InstrPos(r), "pointer returned only after parseOid succeeded for the oid it carries", "a pointer can be returned although parseOid failed: "+path)
		}
		// size
		sc, idx, isRes := CallResult(sizeArg)
		if !isRes || CalleeName(sc.Common()) != "strconv.ParseInt" || idx != 0 {
			c.Bad("R2", "decodeKV:size-parse", p.InstrPos(r), "the pointer's size is not directly the result of strconv.ParseInt (a conversion from another integer type can wrap to a negative value)")
		} else {
			base, ok1 := ConstInt(sc.Call.Args[1])
			bits, ok2 := ConstInt(sc.Call.Args[2])
			c.Check(ok1 && ok2 && base == 10 && bits == 64, "R2", "decodeKV:size-base", p.InstrPos(sc), "size parsed as base-10 64-bit integer", "size is not parsed with base 10 and 64 bits")
			passErr := errNilPass(fn, sc)
			passNonNeg := PassEdges(fn, func(cond ssa.Value) (bool, bool) {
				op, x, y, ok := BinCmp(cond)
				if !ok || !SameValue(x, sizeArg) {
					return false, false
				}
				k, isK := ConstInt(y)
				if !isK {
					return false, false
				}
				switch {
				case op == token.LSS && k == 0, op == token.LEQ && k == -1:
					return false, true
				case op == token.GEQ && k == 0, op == token.GTR && k == -1:
					return true, true
				}
				return false, false
			})
			ok3, path3 := Guarded(fn.Blocks[0], r, passErr, nil)
			ok4, path4 := Guarded(fn.Blocks[0], r, passNonNeg, nil)
			c.Check(ok3 && nonVacuous(passErr), "R2", "decodeKV:size-error", p.InstrPos(r), "pointer returned only when the size parsed without error", "a pointer can be returned although the size did not parse: "+path3)
			c.Check(ok4 && nonVacuous(passNonNeg), "R2", "decodeKV:size-nonnegative", p.InstrPos(r), "pointer returned only for size >= 0", "a pointer with a negative size can be returned: "+path4)
		}
		// extensions: validated and sorted when present
		val := findCall("lfs.validatePointerExtensions")
		srt := findCall("sort.Sort")
		if val == nil || srt == nil {
			c.Bad("R2", "decodeKV:extensions", p.InstrPos(r), "extensions are not validated for duplicate priorities and sorted")
		} else {
			// the nil-extensions edge
			nilEdge := PassEdges(fn, func(cond ssa.Value) (bool, bool) {
				e, trueMeansNil, ok := IsErrNilCheck(cond)
				if ok {
					if _, isMap := e.Type().Underlying().(interface{ Key() interface{} }); isMap {
						return trueMeansNil, true
					}
					if strings.HasPrefix(short(e.Type().String()), "map[") {
						return trueMeansNil, true
					}
				}
				return false, false
			})
			pass := append(errNilPass(fn, val), nilEdge...)
			ok, path := Guarded(fn.Blocks[0], r, pass, nil)
			c.Check(ok, "R2", "decodeKV:extensions-validated", p.InstrPos(r), "with extensions present the pointer is returned only after the duplicate-priority check passed", "a pointer with extensions can be returned without the duplicate-priority check: "+path)
			// sorted: removing the sort block makes the return unreachable unless no extensions
			cut := EdgeSet(nilEdge)
			for i := range srt.Block().Succs {
				cut[Edge{srt.Block(), i}] = true
			}
			c.Check(!InstrReachable(fn.Blocks[0], r, cut, nil), "R2", "decodeKV:extensions-sorted", p.InstrPos(r), "extensions are sorted by priority before the pointer is returned", "a pointer with extensions can be returned without sorting them by priority")
			// the sorted/validated slice is the one handed to NewPointer
			same := false
			for _, l := range p.LeavesNoFields(srt.Call.Args[0], nil) {
				for _, l2 := range p.LeavesNoFields(extArg, nil) {
					if l == l2 {
						same = true
					}
				}
			}
			c.Check(same, "R2", "decodeKV:extensions-same-slice", p.InstrPos(srt), "the validated and sorted slice is the one returned", "the slice that is validated/sorted is not the one placed in the pointer")
			// every appended extension passed parsePointerExtension
			for _, b := range fn.Blocks {
				for _, in := range b.Instrs {
					if isAppendOf(in, "lfs.PointerExtension") {
						el := variadicElems(in.(*ssa.Call).Call.Args[1])
						okp := false
						if len(el) == 1 {
							if pc, idx, isRes := CallResult(el[0]); isRes && idx == 0 && CalleeName(pc.Common()) == "lfs.parsePointerExtension" {
								pass := errNilPass(fn, pc)
								g, _ := Guarded(fn.Blocks[0], in, pass, nil)
								okp = g && nonVacuous(pass)
							}
						}
						c.Check(okp, "R2", "decodeKV:extension-parsed", p.InstrPos(in), "only successfully parsed extensions are kept", "an extension is kept although parsePointerExtension failed (or was not called)")
					}
				}
			}
		}
	}
	// validatePointerExtensions: an already-seen priority returns an error
	if vf := p.Fn("lfs", "validatePointerExtensions"); vf != nil {
		good := false
		for _, b := range vf.Blocks {
			ifi, ok := lastInstr(b).(*ssa.If)
			if !ok {
				continue
			}
			cond, flip := stripNot(ifi.Cond)
			ex, ok := cond.(*ssa.Extract)
			if !ok || ex.Index != 1 {
				continue
			}
			lk, ok := ex.Tuple.(*ssa.Lookup)
			if !ok || !lk.CommaOk {
				continue
			}
			if _, f, _, isF := FieldOf(lk.Index); !isF || f != "Priority" {
				continue
			}
			seenEdge := 0
			if flip {
				seenEdge = 1
			}
			tb := b.Succs[seenEdge]
			if r, ok := lastInstr(tb).(*ssa.Return); ok && !IsNilConst(r.Results[0]) {
				// and the other edge records the same key
				ob := b.Succs[1-seenEdge]
				for _, in := range ob.Instrs {
					if mu, ok := in.(*ssa.MapUpdate); ok && mu.Map == lk.X {
						if _, f, _, isF := FieldOf(mu.Key); isF && f == "Priority" {
							good = true
						}
					}
				}
			}
		}
		c.Check(good, "R2", "validatePointerExtensions:duplicate-priority", p.Pos(vf.Pos()), "a priority seen before yields an error, otherwise it is recorded", "validatePointerExtensions does not refuse a repeated priority")
	} else {
		c.Missing("R2", "lfs.validatePointerExtensions", "not found")
	}
	// ByPriority.Less is p[i].Priority < p[j].Priority
	if lf := p.Fn("lfs", "(ByPriority).Less"); lf != nil {
		good := false
		for _, r := range ReturnsOf(lf) {
			op, x, y, ok := BinCmp(r.Results[0])
			if ok && op == token.LSS {
				_, f1, _, ok1 := FieldOf(x)
				_, f2, _, ok2 := FieldOf(y)
				if ok1 && ok2 && f1 == "Priority" && f2 == "Priority" {
					ix := indexOfElem(x)
					iy := indexOfElem(y)
					if ix != nil && iy != nil && len(lf.Params) == 3 && ix == ssa.Value(lf.Params[1]) && iy == ssa.Value(lf.Params[2]) {
						good = true
					}
				}
			}
		}
		c.Check(good, "R2", "ByPriority.Less", p.Pos(lf.Pos()), "ascending order by Priority", "ByPriority.Less is not p[i].Priority < p[j].Priority (extensions would not come out in ascending priority order)")
	} else {
		c.Missing("R2", "(lfs.ByPriority).Less", "not found")
	}
	// verifyVersion: nil only via equality with an element of v1Aliases; aliases table vs. spec
	if vf := p.Fn("lfs", "verifyVersion"); vf != nil {
		for _, r := range ReturnsOf(vf) {
			if !IsNilConst(r.Results[0]) {
				continue
			}
			pass := PassEdges(vf, func(cond ssa.Value) (bool, bool) {
				op, x, y, ok := BinCmp(cond)
				if !ok || (op != token.EQL && op != token.NEQ) {
					return false, false
				}
				fromAliases := func(v ssa.Value) bool {
					for _, l := range p.LeavesNoFields(v, nil) {
						if g, ok := l.(*ssa.Global); ok && g.Name() == "v1Aliases" {
							return true
						}
					}
					return false
				}
				isParam := func(v ssa.Value) bool { _, ok := Unwrap(v).(*ssa.Parameter); return ok }
				if fromAliases(x) && isParam(y) || fromAliases(y) && isParam(x) {
					return op == token.EQL, true
				}
				return false, false
			})
			ok, path := Guarded(vf.Blocks[0], r, pass, nil)
			c.Check(ok && nonVacuous(pass), "R2", "verifyVersion:alias-equality", p.InstrPos(r), "a version is accepted only when it equals a known alias exactly", "verifyVersion can accept a version that equals none of the known aliases: "+path)
		}
	}
	aliases, apos, ok := stringSliceGlobal(p, "lfs", "v1Aliases")
	lat, _, ok2 := globalInitStrings(p, "lfs", "latest")
	if !ok || !ok2 || len(lat) != 1 {
		c.Missing("R2", "lfs.v1Aliases / lfs.latest", "version tables not found")
	} else {
		spec, _ := os.ReadFile(filepath.Join(p.Dir, "docs", "spec.md"))
		in := false
		for _, a := range aliases {
			if a == lat[0] {
				in = true
			}
		}
		c.Check(in, "R5", "latest-in-aliases", p.Pos(apos), "the version the encoder writes is one the decoder accepts", "the encoder's version is not among the aliases the decoder accepts: Decode(Encode(p)) fails")
		c.Check(strings.Contains(string(spec), "version "+lat[0]), "R5", "latest-is-spec-version", p.Pos(apos), "the encoder writes the version URL of docs/spec.md", "the encoder's version URL does not appear in docs/spec.md")
	}
}

func indexOfElem(fieldLoad ssa.Value) ssa.Value {
	_, _, base, ok := FieldOf(fieldLoad)
	if !ok {
		return nil
	}
	// base = *(&p[i])
	if u, ok := base.(*ssa.UnOp); ok {
		if ia, ok := u.X.(*ssa.IndexAddr); ok {
			return ia.Index
		}
	}
	return nil
}

func c07KeyOrder(c *Ctx) {
	p := c.P
	fn := p.Fn("lfs", "decodeKVData")
	if fn == nil {
		c.Missing("R3", "lfs.decodeKVData", "not found")
		return
	}
	keys, kpos, ok := stringSliceGlobal(p, "lfs", "pointerKeys")
	c.Check(ok && strings.Join(keys, ",") == "version,oid,size", "R3", "pointerKeys-table", p.Pos(kpos), "required keys in the order of the specification", "pointerKeys is not [version oid size]")
	// the store kvps[key] = value
	var store *ssa.MapUpdate
	for _, b := range fn.Blocks {
		for _, in := range b.Instrs {
			if mu, ok := in.(*ssa.MapUpdate); ok {
				if pass := keyEqExpectedEdges(p, fn, mu.Key); nonVacuous(pass) {
					if l := LoopOf(Loops(fn), mu.Block()); l != nil {
						if g, _ := Guarded(l.Body, mu, pass, nil); g {
							store = mu
						}
					}
				}
			}
		}
	}
	if store == nil {
		c.Bad("R3", "required-key-store", p.Pos(fn.Pos()), "no store of a required key is guarded by key == pointerKeys[line]")
		return
	}
	pass := keyEqExpectedEdges(p, fn, store.Key)
	loops := Loops(fn)
	l := LoopOf(loops, store.Block())
	if l == nil {
		c.Undecided("R3", "required-key-store", p.InstrPos(store), "store is not inside the line loop")
		return
	}
	ok2, path := Guarded(l.Body, store, pass, nil)
	c.Check(ok2, "R3", "required-key-store", p.InstrPos(store), "a required key is stored only when it equals the key expected at this position", "a key can be stored without matching pointerKeys[line]: "+path)
	// line counter: φ at the loop header; incremented exactly on the path that stores
	var linePhi *ssa.Phi
	for _, in := range l.Header.Instrs {
		if ph, ok := in.(*ssa.Phi); ok && ph.Comment == "line" {
			linePhi = ph
		}
	}
	if linePhi == nil {
		c.Undecided("R3", "line-counter", p.InstrPos(store), "cannot find the line counter φ-node")
		return
	}
	good := true
	why := ""
	for i, e := range linePhi.Edges {
		pred := l.Header.Preds[i]
		inLoop := l.Region[pred]
		switch {
		case !inLoop:
			if k, ok := ConstInt(e); !ok || k != 0 {
				good, why = false, "the line counter does not start at 0"
			}
		case pred == store.Block() || store.Block().Dominates(pred):
			bo, ok := e.(*ssa.BinOp)
			k, isK := ssa.Value(nil), false
			if ok {
				_, isK = ConstInt(bo.Y)
				k = bo.X
			}
			one := false
			if ok && isK {
				if n, _ := ConstInt(bo.Y); n == 1 && bo.Op == token.ADD && k == ssa.Value(linePhi) {
					one = true
				}
			}
			if !one {
				good, why = false, "the line counter is not advanced by exactly one when a required key is stored (a key could be accepted twice or out of order)"
			}
		default:
			if e != ssa.Value(linePhi) {
				good, why = false, "the line counter changes on a path that stores no required key"
			}
		}
	}
	c.Check(good, "R3", "line-counter", p.InstrPos(store), "the position advances exactly when a required key is stored", why)
	// keys that do not match are accepted only through the extension pattern
	for _, b := range fn.Blocks {
		for _, in := range b.Instrs {
			mu, ok := in.(*ssa.MapUpdate)
			if !ok || mu == store {
				continue
			}
			passExt := PassEdges(fn, func(cond ssa.Value) (bool, bool) {
				call, ok := cond.(*ssa.Call)
				if !ok || CalleeName(&call.Call) != "(*regexp.Regexp).MatchString" {
					return false, false
				}
				if u, ok := call.Call.Args[0].(*ssa.UnOp); ok {
					if g, ok := u.X.(*ssa.Global); ok && g.Name() == "extRE" && SameValue(call.Call.Args[1], mu.Key) {
						return true, true
					}
				}
				return false, false
			})
			okx, pathx := Guarded(l.Body, mu, passExt, nil)
			c.Check(okx && nonVacuous(passExt), "R3", "extension-key-store", p.InstrPos(mu), "other keys are kept only when they match the extension key pattern", "a non-required key can be kept without matching the extension pattern: "+pathx)
		}
	}
}

func keyEqExpectedEdges(p *Prog, fn *ssa.Function, key ssa.Value) []Edge {
	return PassEdges(fn, func(cond ssa.Value) (bool, bool) {
		op, x, y, ok := BinCmp(cond)
		if !ok || (op != token.EQL && op != token.NEQ) {
			return false, false
		}
		isExpected := func(v ssa.Value) bool {
			u, ok := v.(*ssa.UnOp)
			if !ok {
				return false
			}
			ia, ok := u.X.(*ssa.IndexAddr)
			if !ok {
				return false
			}
			if lu, ok := ia.X.(*ssa.UnOp); ok {
				if g, ok := lu.X.(*ssa.Global); ok && g.Name() == "pointerKeys" {
					return true
				}
			}
			return false
		}
		if SameValue(x, key) && isExpected(y) || SameValue(y, key) && isExpected(x) {
			return op == token.EQL, true
		}
		return false, false
	})
}

func c07Canonical(c *Ctx) {
	p := c.P
	fn := p.Fn("lfs", "DecodeFrom")
	if fn == nil {
		c.Missing("R4", "lfs.DecodeFrom", "not found")
		return
	}
	// the bytes read: buf[:n] with n from io.ReadFull(reader, buf)
	var raw ssa.Value
	for _, b := range fn.Blocks {
		for _, in := range b.Instrs {
			if sl, ok := in.(*ssa.Slice); ok && sl.High != nil {
				if call, idx, isRes := CallResult(sl.High); isRes && idx == 0 && nameIn(CalleeName(call.Common()), []string{"io.ReadFull", "io.ReadAtLeast"}) {
					if Unwrap(call.Call.Args[1]) == Unwrap(sl.X) {
						raw = sl
					}
				}
			}
		}
	}
	if raw == nil {
		c.Bad("R4", "DecodeFrom:raw-bytes", p.Pos(fn.Pos()), "cannot find buf[:n] with n = io.ReadFull(reader, buf): the decoder may treat a single short Read as the whole input")
		return
	}
	c.OK("R4", "DecodeFrom:raw-bytes", p.InstrPos(raw.(ssa.Instruction)), "the prefix is filled with io.ReadFull and sliced to the bytes read")
	isRaw := func(v ssa.Value) bool { return Unwrap(LiveValue(Unwrap(v))) == raw }
	// stores to Pointer.Canonical program-wide
	n := 0
	for _, f := range p.RepoFuncs(productPkg) {
		for _, b := range f.Blocks {
			for _, in := range b.Instrs {
				st, ok := in.(*ssa.Store)
				if !ok {
					continue
				}
				fa, ok := st.Addr.(*ssa.FieldAddr)
				if !ok {
					continue
				}
				if t, fl := fieldAddrName(fa); t != "lfs.Pointer" || fl != "Canonical" {
					continue
				}
				n++
				switch FnName(f) {
				case "lfs.NewPointer":
					bv, isC := ConstBool(st.Val)
					c.Check(isC && bv, "R4", "Canonical:NewPointer", p.InstrPos(in), "freshly built pointers are canonical", "NewPointer does not mark fresh pointers canonical")
				case "lfs.DecodeFrom":
					op, x, y, isCmp := BinCmp(st.Val)
					good := false
					if isCmp && op == token.EQL {
						enc := func(v ssa.Value) bool {
							call, _, ok := CallResult(v)
							return ok && CalleeName(call.Common()) == "(*lfs.Pointer).Encoded" && Unwrap(call.Call.Args[0]) == Unwrap(fa.X)
						}
						rawStr := func(v ssa.Value) bool {
							cv, ok := v.(*ssa.Convert)
							return ok && isRaw(cv.X)
						}
						good = enc(x) && rawStr(y) || enc(y) && rawStr(x)
					}
					c.Check(good, "R4", "Canonical:DecodeFrom", p.InstrPos(in), "canonical == (Encoded() of the decoded pointer equals the untrimmed bytes read)", "the canonical flag is not computed as p.Encoded() == string(<all bytes read, untrimmed>)")
				default:
					c.Bad("R4", "Canonical:writer:"+FnName(f), p.InstrPos(in), "the canonical flag is written outside NewPointer/DecodeFrom")
				}
			}
		}
	}
	c.AtLeast("R4", "writers of Pointer.Canonical", n, 2)
	emptyShortcutRule(c, "R4")
	// decodeKV receives the trimmed raw bytes
	for _, ci := range CallsIn(fn, "lfs.decodeKV") {
		a := ci.Common().Args[0]
		good := false
		if call, _, ok := CallResult(a); ok && CalleeName(call.Common()) == "bytes.TrimSpace" && isRaw(call.Call.Args[0]) {
			good = true
		}
		if isRaw(a) {
			good = true
		}
		c.Check(good, "R4", "DecodeFrom:parses-all-bytes-read", p.InstrPos(ci), "the parser sees all bytes read (whitespace-trimmed)", "decodeKV is not given the bytes that were read")
	}
}

// emptyShortcutRule: DecodeFrom returns the empty pointer only when zero bytes were read
// (shared by C07.R4, C08.R7 and C01.R7).
func emptyShortcutRule(c *Ctx, rule string) {
	p := c.P
	fn := p.Fn("lfs", "DecodeFrom")
	if fn == nil {
		c.Missing(rule, "lfs.DecodeFrom", "not found")
		return
	}
	var raw ssa.Value
	for _, b := range fn.Blocks {
		for _, in := range b.Instrs {
			if sl, ok := in.(*ssa.Slice); ok && sl.High != nil {
				if call, idx, isRes := CallResult(sl.High); isRes && idx == 0 && nameIn(CalleeName(call.Common()), []string{"io.ReadFull", "io.ReadAtLeast", "(io.Reader).Read"}) {
					if Unwrap(call.Call.Args[len(call.Call.Args)-1]) == Unwrap(sl.X) || len(call.Call.Args) > 1 && Unwrap(call.Call.Args[1]) == Unwrap(sl.X) {
						raw = sl
					}
				}
			}
		}
	}
	if raw == nil {
		c.Undecided(rule, "DecodeFrom:empty-only-for-zero-bytes", p.Pos(fn.Pos()), "cannot identify the bytes read")
		return
	}
	isRaw := func(v ssa.Value) bool { return Unwrap(LiveValue(Unwrap(v))) == raw }
	n := 0
	// the empty-pointer shortcut only for zero bytes read
	for _, ci := range CallsIn(fn, "lfs.EmptyPointer") {
		n++
		pass := PassEdges(fn, func(cond ssa.Value) (bool, bool) {
			op, x, y, ok := BinCmp(cond)
			if !ok {
				return false, false
			}
			k, isK := ConstInt(y)
			lc, isCall := x.(*ssa.Call)
			if !isK || !isCall {
				return false, false
			}
			if bi, ok := lc.Call.Value.(*ssa.Builtin); !ok || bi.Name() != "len" || !isRaw(lc.Call.Args[0]) {
				return false, false
			}
			switch {
			case op == token.EQL && k == 0, op == token.LSS && k == 1, op == token.LEQ && k == 0:
				return true, true
			case op == token.NEQ && k == 0, op == token.GTR && k == 0, op == token.GEQ && k == 1:
				return false, true
			}
			return false, false
		})
		ok, path := Guarded(fn.Blocks[0], ci, pass, nil)
		c.Check(ok && nonVacuous(pass), rule, "DecodeFrom:empty-only-for-zero-bytes", p.InstrPos(ci), "the empty pointer is returned only when zero bytes were read", "input that is not empty (e.g. whitespace only) can decode as the empty pointer: "+path)
	}
	c.AtLeast(rule, "empty-pointer shortcut sites", n, 1)
}

func c07Encoder(c *Ctx) {
	p := c.P
	fn := p.Fn("lfs", "(*Pointer).Encoded")
	if fn == nil {
		c.Missing("R5", "(*lfs.Pointer).Encoded", "not found")
		return
	}
	type w struct {
		in     ssa.Instruction
		format string
		args   []ssa.Value
	}
	var ws []w
	for _, b := range fn.DomPreorder() {
		for _, in := range b.Instrs {
			cc := AsCall(in)
			if cc == nil || !nameIn(CalleeName(cc), []string{"(*bytes.Buffer).WriteString", "(*strings.Builder).WriteString", "fmt.Fprintf"}) {
				continue
			}
			var f string
			var args []ssa.Value
			if CalleeName(cc) == "fmt.Fprintf" {
				f, _ = ConstString(cc.Args[1])
				args = variadicElems(cc.Args[2])
			} else if sp, _, ok := CallResult(cc.Args[1]); ok && CalleeName(sp.Common()) == "fmt.Sprintf" {
				f, _ = ConstString(sp.Call.Args[0])
				args = variadicElems(sp.Call.Args[1])
			} else if s, ok := ConstString(cc.Args[1]); ok {
				f = s
			}
			ws = append(ws, w{in, f, args})
		}
	}
	var formats []string
	for _, x := range ws {
		formats = append(formats, x.format)
	}
	want := []string{"version %s\n", "ext-%d-%s %s:%s\n", "oid %s:%s\n", "size %d\n"}
	c.Check(strings.Join(formats, "|") == strings.Join(want, "|"), "R5", "Encoded:line-formats-in-order", p.Pos(fn.Pos()),
		"lines are written as version, ext-*, oid, size, each 'key SP value LF'", fmt.Sprintf("the encoder writes %q, expected %q (version first, remaining keys sorted, one LF-terminated line per key)", formats, want))
	if len(ws) == 4 {
		loops := Loops(fn)
		c.Check(LoopOf(loops, ws[1].in.Block()) != nil && LoopOf(loops, ws[0].in.Block()) == nil && LoopOf(loops, ws[2].in.Block()) == nil && LoopOf(loops, ws[3].in.Block()) == nil,
			"R5", "Encoded:one-line-per-key", p.Pos(fn.Pos()), "version/oid/size once, one ext line per extension", "a fixed line is written inside a loop or the extension line outside one")
		// operands
		fieldsOf := func(args []ssa.Value) string {
			var s []string
			for _, a := range args {
				v := Unwrap(a)
				if _, f, _, ok := FieldOf(v); ok {
					s = append(s, f)
				} else if u, ok := v.(*ssa.UnOp); ok {
					if g, ok := u.X.(*ssa.Global); ok {
						s = append(s, "$"+g.Name())
					} else {
						s = append(s, "?")
					}
				} else {
					s = append(s, "?")
				}
			}
			return strings.Join(s, ",")
		}
		got := []string{fieldsOf(ws[0].args), fieldsOf(ws[1].args), fieldsOf(ws[2].args), fieldsOf(ws[3].args)}
		wantOps := []string{"$latest", "Priority,Name,OidType,Oid", "OidType,Oid", "Size"}
		c.Check(strings.Join(got, "|") == strings.Join(wantOps, "|"), "R5", "Encoded:operands", p.Pos(fn.Pos()), "each line carries the matching fields", fmt.Sprintf("the encoder's operands are %v, expected %v", got, wantOps))
	}
	// Size == 0 <=> ""
	okEmpty := false
	for _, r := range ReturnsOf(fn) {
		if s, isC := ConstString(r.Results[0]); isC && s == "" {
			pass := PassEdges(fn, func(cond ssa.Value) (bool, bool) {
				op, x, y, ok := BinCmp(cond)
				if !ok {
					return false, false
				}
				if k, isK := ConstInt(y); isK && k == 0 {
					if _, f, _, isF := FieldOf(x); isF && f == "Size" {
						if op == token.EQL {
							return true, true
						}
						if op == token.NEQ {
							return false, true
						}
					}
				}
				return false, false
			})
			g, _ := Guarded(fn.Blocks[0], r, pass, nil)
			okEmpty = g && nonVacuous(pass)
		}
	}
	c.Check(okEmpty, "R5", "Encoded:empty-iff-size-0", p.Pos(fn.Pos()), "the empty encoding is produced exactly for size 0", "Encoded does not return \"\" exactly when Size == 0")
}

// ---- R6: panic-freedom of the decoder region ----------------------------------------------------

type bceSite struct {
	file string
	line int
	col  int
	kind string
}

func compilerBCE(p *Prog, pkgRel string) ([]bceSite, error) {
	args := []string{"build", "-gcflags=" + Mod + "/" + pkgRel + "=-d=ssa/check_bce/debug=1"}
	if len(p.overlayFiles) > 0 {
		dir, err := os.MkdirTemp("", "lfscheck-ov-")
		if err != nil {
			return nil, err
		}
		defer os.RemoveAll(dir)
		rep := map[string]string{}
		i := 0
		for path, content := range p.overlayFiles {
			f := filepath.Join(dir, fmt.Sprintf("f%d.go", i))
			i++
			if err := os.WriteFile(f, content, 0o644); err != nil {
				return nil, err
			}
			rep[path] = f
		}
		b, _ := json.Marshal(map[string]interface{}{"Replace": rep})
		ovf := filepath.Join(dir, "overlay.json")
		os.WriteFile(ovf, b, 0o644)
		args = append(args, "-overlay", ovf)
	}
	args = append(args, "-o", os.DevNull, "./"+pkgRel)
	cmd := exec.Command("go", args...)
	cmd.Dir = p.Dir
	cmd.Env = goEnv(LoadOpts{})
	out, err := cmd.CombinedOutput()
	var sites []bceSite
	re := regexp.MustCompile(`^(?:\./)?([^:\s]+\.go):(\d+):(\d+): Found (IsInBounds|IsSliceInBounds)`)
	for _, line := range strings.Split(string(out), "\n") {
		if m := re.FindStringSubmatch(strings.TrimSpace(line)); m != nil {
			l, _ := strconv.Atoi(m[2])
			cl, _ := strconv.Atoi(m[3])
			sites = append(sites, bceSite{m[1], l, cl, m[4]})
		}
	}
	if err != nil && len(sites) == 0 {
		return nil, fmt.Errorf("go build for the BCE report failed: %v: %s", err, firstLine(string(out)))
	}
	return sites, nil
}

func c07NoPanic(c *Ctx) {
	p := c.P
	// region: functions of package lfs statically reachable from the decode entry points
	entries := []string{"DecodeFrom", "DecodePointer", "DecodePointerFromBlob", "DecodePointerFromFile"}
	region := map[*ssa.Function]bool{}
	var work []*ssa.Function
	for _, e := range entries {
		if f := p.Fn("lfs", e); f != nil {
			work = append(work, f)
		} else {
			c.Missing("R6", "lfs."+e, "decoder entry point not found")
		}
	}
	// methods reached through sort.Sort(ByPriority)
	for _, m := range []string{"(ByPriority).Len", "(ByPriority).Less", "(ByPriority).Swap"} {
		if f := p.Fn("lfs", m); f != nil {
			work = append(work, f)
		}
	}
	for len(work) > 0 {
		f := work[len(work)-1]
		work = work[:len(work)-1]
		if region[f] {
			continue
		}
		region[f] = true
		for _, af := range f.AnonFuncs {
			work = append(work, af)
		}
		for _, b := range f.Blocks {
			for _, in := range b.Instrs {
				if cc := AsCall(in); cc != nil {
					if callee := cc.StaticCallee(); callee != nil && callee.Pkg != nil && callee.Pkg.Pkg.Path() == Mod+"/lfs" && callee.Blocks != nil {
						work = append(work, callee)
					}
				}
			}
		}
	}
	c.Stat("decoder-region-functions", len(region))
	var names []string
	for f := range region {
		names = append(names, FnName(f))
	}
	sort.Strings(names)
	c.Note("decoder region: %s", strings.Join(names, ", "))
	// (i) explicit panics, unchecked type assertions, nil-map writes
	for f := range region {
		for _, b := range f.Blocks {
			for _, in := range b.Instrs {
				switch x := in.(type) {
				case *ssa.Panic:
					if in.Pos().IsValid() {
						c.Bad("R6", "explicit-panic:"+FnName(f), p.InstrPos(in), "explicit panic reachable from the pointer decoder")
					}
				case *ssa.TypeAssert:
					if !x.CommaOk {
						c.Bad("R6", "type-assert:"+FnName(f), p.InstrPos(in), "type assertion without comma-ok reachable from the pointer decoder")
					}
				case *ssa.MapUpdate:
					mayNil := false
					for _, l := range p.LeavesNoFields(x.Map, nil) {
						if IsNilConst(l) {
							mayNil = true
						}
					}
					if mayNil {
						// acceptable only when a dominating nil test + make exists: the φ must not carry nil at this point
						if ph, ok := x.Map.(*ssa.Phi); ok {
							carries := false
							for _, e := range ph.Edges {
								if IsNilConst(e) {
									carries = true
								}
							}
							if !carries {
								mayNil = false
							}
						}
					}
					c.Check(!mayNil, "R6", "nil-map-write:"+FnName(f), p.InstrPos(in), "map is made before it is written", "write to a map that can still be nil panics")
				case *ssa.BinOp:
					if (x.Op == token.QUO || x.Op == token.REM) && !isConstNonZero(x.Y) {
						c.Bad("R6", "division:"+FnName(f), p.InstrPos(in), "division by a non-constant in the decoder region")
					}
				}
				if cc := AsCall(in); cc != nil {
					n := CalleeName(cc)
					if n == "regexp.MustCompile" {
						c.Bad("R6", "MustCompile-at-runtime:"+FnName(f), p.InstrPos(in), "regexp.MustCompile on the decoding path can panic")
					}
				}
			}
		}
	}
	// (ii) bounds checks the compiler could not eliminate
	sites, err := compilerBCE(p, "lfs")
	if err != nil {
		c.Undecided("R6", "compiler-bce-report", "-", err.Error())
		return
	}
	c.Stat("compiler-unproven-bounds-checks-in-package", len(sites))
	nRegion := 0
	ord := map[string]int{}
	for _, s := range sites {
		fn := funcAt(p, region, s)
		if fn == nil {
			continue
		}
		nRegion++
		kind := s.kind
		k := fmt.Sprintf("%s:%s", FnName(fn), kind)
		ord[k]++
		key := fmt.Sprintf("bounds:%s#%d", k, ord[k])
		pos := fmt.Sprintf("%s:%d", s.file, s.line)
		switch {
		case strings.HasPrefix(FnName(fn), "(lfs.ByPriority)."):
			c.OK("R6", key, pos, "contract: sort.Sort passes indices within [0, Len())")
		case FnName(fn) == "lfs.DecodeFrom" && kind == "IsSliceInBounds":
			// buf[:n], n from io.ReadFull(reader, buf)
			good := false
			for _, b := range fn.Blocks {
				for _, in := range b.Instrs {
					if sl, ok := in.(*ssa.Slice); ok && sl.High != nil && p.Fset.Position(sl.Pos()).Line == s.line {
						if call, idx, isRes := CallResult(sl.High); isRes && idx == 0 && nameIn(CalleeName(call.Common()), []string{"io.ReadFull", "io.ReadAtLeast", "(io.Reader).Read"}) && Unwrap(call.Call.Args[len(call.Call.Args)-1]) == Unwrap(sl.X) || isRes && idx == 0 && len(call.Call.Args) >= 2 && Unwrap(call.Call.Args[1]) == Unwrap(sl.X) {
							good = true
						}
					}
				}
			}
			c.Check(good, "R6", key, pos, "contract: the reader returns n <= len(buf) for the same buffer", "slice bound is not the byte count returned by reading into the same buffer")
		case FnName(fn) == "(*lfs.Pointer).Encoded" && kind == "IsSliceInBounds":
			c.OK("R6", key, pos, "contract: inlined (*bytes.Buffer).String slices its own buffer at its own offset")
		case kind == "IsInBounds":
			// an index expression: must be dominated by a length test over the same operands
			good := false
			why := "no dominating length test found for this index"
			for _, b := range fn.Blocks {
				for _, in := range b.Instrs {
					ia, ok := in.(*ssa.IndexAddr)
					if !ok || p.Fset.Position(ia.Pos()).Line != s.line {
						continue
					}
					pass := PassEdges(fn, func(cond ssa.Value) (bool, bool) {
						op, x, y, ok := BinCmp(cond)
						if !ok {
							return false, false
						}
						isLen := func(v ssa.Value) bool {
							for _, l := range p.LeavesNoFields(v, nil) {
								if lc, ok := l.(*ssa.Call); ok {
									if bi, ok := lc.Call.Value.(*ssa.Builtin); ok && bi.Name() == "len" && sameLoad(lc.Call.Args[0], ia.X) {
										return true
									}
								}
							}
							return false
						}
						isIdx := func(v ssa.Value) bool { return v == ia.Index }
						switch {
						case isLen(x) && isIdx(y): // len <= idx (fail) / len > idx (pass)
							if op == token.LEQ || op == token.EQL {
								return false, true
							}
							if op == token.GTR {
								return true, true
							}
						case isIdx(x) && isLen(y): // idx < len pass / idx >= len fail
							if op == token.LSS {
								return true, true
							}
							if op == token.GEQ {
								return false, true
							}
						}
						return false, false
					})
					if nonVacuous(pass) {
						loops := Loops(fn)
						entry := fn.Blocks[0]
						if l := LoopOf(loops, ia.Block()); l != nil {
							entry = l.Body
						}
						if g, pth := Guarded(entry, ia, pass, nil); g {
							good = true
						} else {
							why = "the index can be reached without the length test: " + pth
						}
					}
				}
			}
			c.Check(good, "R6", key, pos, "index dominated by a length test over the same slice and index", "the compiler could not prove this index in bounds and "+why+": malformed input can panic the decoder")
		default:
			c.Bad("R6", key, pos, "the compiler could not prove this slice expression in bounds and no contract row covers it")
		}
	}
	c.Stat("compiler-unproven-bounds-checks-in-region", nRegion)
}

func isConstNonZero(v ssa.Value) bool {
	k, ok := ConstInt(v)
	return ok && k != 0
}

func sameLoad(a, b ssa.Value) bool {
	if Unwrap(a) == Unwrap(b) {
		return true
	}
	ua, ok1 := a.(*ssa.UnOp)
	ub, ok2 := b.(*ssa.UnOp)
	if ok1 && ok2 && ua.X == ub.X {
		if _, isG := ua.X.(*ssa.Global); isG {
			return true
		}
	}
	return false
}

// funcAt maps a compiler position to the region function containing it.
func funcAt(p *Prog, region map[*ssa.Function]bool, s bceSite) *ssa.Function {
	var best *ssa.Function
	bestSpan := 1 << 30
	for f := range region {
		syn := f.Syntax()
		if syn == nil {
			continue
		}
		st := p.Fset.Position(syn.Pos())
		en := p.Fset.Position(syn.End())
		rel, _ := filepath.Rel(p.Dir, st.Filename)
		if rel != s.file && filepath.Base(rel) != filepath.Base(s.file) {
			continue
		}
		if s.line < st.Line || s.line > en.Line {
			continue
		}
		if span := en.Line - st.Line; span < bestSpan {
			best, bestSpan = f, span
		}
	}
	return best
}

var c07Canaries = []Canary{
	{Name: "r7-blob-cutoff-dropped", ExpectKey: "C07.C08/R3#cutoff-use", Edits: []Edit{{File: "lfs/pointer.go", Find: "}\n\nfunc DecodePointerFromBlob(b *gitobj.Blob) (*Pointer, error) {\n\t// Check size before reading\n\tif b.Size >= blobSizeCutoff {\n\t\treturn nil, errors.NewNotAPointerError(errors.New(tr.Tr.Get(\"blob size exceeds Git LFS pointer size cutoff\")))\n\t}\n\treturn DecodePointer(b.Contents)\n}\n\nfunc DecodePointerFromFile(file string) (*Pointer, error) {\n", Repl: "}\n\nfunc DecodePointerFromBlob(b *gitobj.Blob) (*Pointer, error) {\n\t// The recorded size of a blob is not always reliable (it is zero for\n\t// blobs built in memory), so bound the read itself: nothing past the\n\t// cutoff can belong to a pointer.\n\treturn DecodePointer(io.LimitReader(b.Contents, blobSizeCutoff))\n}\n\nfunc DecodePointerFromFile(file string) (*Pointer, error) {\n"}}},
	{Name: "r6-extension-key-split", ExpectKey: "C07.R2#", Edits: []Edit{{File: "lfs/pointer.go", Find: "\toidType     = \"sha256\"\n\toidRE       = regexp.MustCompile(`\\A[0-9a-f]{64}\\z`)\n\tmatcherRE   = regexp.MustCompile(\"git-media|hawser|git-lfs\")\n\textRE       = regexp.MustCompile(`\\Aext-\\d{1}-\\w+`)\n\tpointerKeys = []string{\"version\", \"oid\", \"size\"}\n)\n\n", Repl: "\toidType     = \"sha256\"\n\toidRE       = regexp.MustCompile(`\\A[0-9a-f]{64}\\z`)\n\tmatcherRE   = regexp.MustCompile(\"git-media|hawser|git-lfs\")\n\textRE       = regexp.MustCompile(`\\Aext-(\\d{1})-(\\w+)`)\n\tpointerKeys = []string{\"version\", \"oid\", \"size\"}\n)\n\n"}, {File: "lfs/pointer.go", Find: "}\n\nfunc parsePointerExtension(key string, value string) (*PointerExtension, error) {\n\tkeyParts := strings.SplitN(key, \"-\", 3)\n\tif len(keyParts) != 3 || keyParts[0] != \"ext\" {\n\t\treturn nil, errors.New(tr.Tr.Get(\"Invalid extension value: %s\", value))\n\t}\n\n", Repl: "}\n\nfunc parsePointerExtension(key string, value string) (*PointerExtension, error) {\n\t// The key has already been matched against extRE by decodeKVData, so\n\t// take the priority and the name from its capture groups rather than\n\t// splitting the key a second time.\n\tkeyParts := extRE.FindStringSubmatch(key)\n\tif len(keyParts) != 3 {\n\t\treturn nil, errors.New(tr.Tr.Get(\"Invalid extension value: %s\", value))\n\t}\n\n"}}},
	{Name: "r5-decodekv-elsewhere", ExpectKey: "C07.R3#decodeKV-caller", Edits: []Edit{{File: "lfs/pointer.go", Find: "func DecodePointer(reader io.Reader) (*Pointer, error) {\n\tp, _, err := DecodeFrom(reader)\n\treturn p, err", Repl: "func DecodePointer(reader io.Reader) (*Pointer, error) {\n\tdata, rerr := io.ReadAll(reader)\n\tif rerr != nil {\n\t\treturn nil, rerr\n\t}\n\tp, err := decodeKV(bytes.TrimSpace(data))\n\treturn p, err"}}},
	{Name: "r4-read-at-least-one", ExpectKey: "C07.R7", Edits: []Edit{{File: "lfs/pointer.go", Find: "io.ReadFull(reader, buf)", Repl: "io.ReadAtLeast(reader, buf, 1)"}}},
	{Name: "oid-uppercase", ExpectKey: "C07.R1#oidRE-language", Edits: []Edit{{File: "lfs/pointer.go", Find: "`\\A[0-9a-f]{64}\\z`", Repl: "`\\A[0-9a-fA-F]{64}\\z`"}}},
	{Name: "oid-unanchored", ExpectKey: "C07.R1#oidRE-language", Edits: []Edit{{File: "lfs/pointer.go", Find: "`\\A[0-9a-f]{64}\\z`", Repl: "`\\A[0-9a-f]{64}`"}}},
	{Name: "size-minus-one", ExpectKey: "C07.R2#decodeKV:size-nonnegative", Edits: []Edit{{File: "lfs/pointer.go", Find: "	if err != nil || size < 0 {", Repl: "	if err != nil || size < -1 {"}}},
	{Name: "size-parseuint", ExpectKey: "C07.R2#decodeKV:size-parse", Edits: []Edit{{File: "lfs/pointer.go", Find: "	size, err := strconv.ParseInt(value, 10, 64)\n	if err != nil || size < 0 {\n		return nil, errors.New(tr.Tr.Get(\"invalid size: %q\", value))\n	}", Repl: "	usize, err := strconv.ParseUint(value, 10, 64)\n	if err != nil {\n		return nil, errors.New(tr.Tr.Get(\"invalid size: %q\", value))\n	}\n	size := int64(usize)"}}},
	{Name: "skip-duplicate-check", ExpectKey: "C07.R2#decodeKV:extensions-validated", Edits: []Edit{{File: "lfs/pointer.go", Find: "		if err = validatePointerExtensions(extensions); err != nil {", Repl: "		if err = validatePointerExtensions(extensions); err != nil && len(extensions) > 9 {"}}},
	{Name: "no-sort", ExpectKey: "C07.R2#decodeKV:extensions-sorted", Edits: []Edit{{File: "lfs/pointer.go", Find: "		sort.Sort(ByPriority(extensions))\n	}\n\n	return NewPointer(oid, size, extensions), nil", Repl: "		if len(extensions) > 2 {\n			sort.Sort(ByPriority(extensions))\n		}\n	}\n\n	return NewPointer(oid, size, extensions), nil"}}},
	{Name: "canonical-trimmed", ExpectKey: "C07.R4#Canonical:DecodeFrom", Edits: []Edit{{File: "lfs/pointer.go", Find: "		p.Canonical = p.Encoded() == string(buf)", Repl: "		p.Canonical = p.Encoded() == string(bytes.TrimSpace(buf))+\"\\n\""}}},
	{Name: "blank-is-empty", ExpectKey: "C07.R4#DecodeFrom:empty-only-for-zero-bytes", Edits: []Edit{{File: "lfs/pointer.go", Find: "	if len(buf) == 0 {\n		return EmptyPointer(), contents, nil\n	}\n\n	p, err := decodeKV(bytes.TrimSpace(buf))", Repl: "	data := bytes.TrimSpace(buf)\n	if len(data) == 0 {\n		return EmptyPointer(), contents, nil\n	}\n\n	p, err := decodeKV(data)"}}},
	{Name: "swap-oid-size", ExpectKey: "C07.R5#Encoded:line-formats-in-order", Edits: []Edit{{File: "lfs/pointer.go", Find: "	buffer.WriteString(fmt.Sprintf(\"oid %s:%s\\n\", p.OidType, p.Oid))\n	buffer.WriteString(fmt.Sprintf(\"size %d\\n\", p.Size))", Repl: "	buffer.WriteString(fmt.Sprintf(\"size %d\\n\", p.Size))\n	buffer.WriteString(fmt.Sprintf(\"oid %s:%s\\n\", p.OidType, p.Oid))"}}},
	{Name: "unguarded-key-index", ExpectKey: "C07.R6#bounds:lfs.decodeKVData", Edits: []Edit{{File: "lfs/pointer.go", Find: "		if numKeys <= line {", Repl: "		if numKeys < line {"}}},
	{Name: "key-any-order", ExpectKey: "C07.R3", Edits: []Edit{{File: "lfs/pointer.go", Find: "		line += 1\n		kvps[key] = value", Repl: "		kvps[key] = value\n		if key != \"size\" {\n			line += 1\n		}"}}},
	{Name: "less-descending", ExpectKey: "C07.R2#ByPriority.Less", Edits: []Edit{{File: "lfs/pointer.go", Find: "return p[i].Priority < p[j].Priority", Repl: "return p[i].Priority > p[j].Priority"}}},
}
