package main

import (
	"fmt"
	"go/constant"
	"go/token"
	"go/types"
	"sort"
	"strings"

	"golang.org/x/tools/go/ssa"
)

// C10 — credentials are only ever sent to the host they were obtained for.

func init() {
	register(&PropDef{
		ID:    "C10",
		Level: "other",
		Explanation: "Decides on the current source of lfshttp/lfsapi: (R1) in the function that builds the request following a redirect, copying a header whose key is Authorization is reachable only through the host-equality test (URL.Host of both requests, i.e. host:port); (R2) no request is returned for an https→http redirect; (R3) net/http never follows redirects itself (every http.Client literal refuses them, no default-client helpers) and only the one function copies headers between requests; " +
			"(R4) the hop bound is live: the hop list handed to the re-issued request strictly grows and the redirect routine refuses at a small constant length; (R5) Authorization headers are set only at the enumerated sites, and credentials looked up for the API/remote URL are applied only under scheme+host equality with the request; (R6) the 401 retry chain has a counter test at entry and credentials are approved only for 2xx. Helper, netrc and negotiate internals are not decided.",
		Assumptions: []string{
			"net/http sends exactly the headers present on the *http.Request; http.ErrUseLastResponse stops net/http's own redirect handling",
			"url.URL.Host contains host:port as parsed from the URL",
		},
		Run:      runC10,
		Canaries: c10Canaries,
	})
}

// urlFieldOfRequest: v is a load of field `field` of (*http.Request).URL; returns the request value.
func urlFieldOfRequest(v ssa.Value, field string) (ssa.Value, bool) {
	t, f, base, ok := FieldOf(v)
	if !ok || t != "net/url.URL" || f != field {
		return nil, false
	}
	t2, f2, req, ok := FieldOf(base)
	if !ok || t2 != "net/http.Request" || f2 != "URL" {
		return nil, false
	}
	return Unwrap(req), true
}

func isHeaderWrite(in ssa.Instruction) (recvReq ssa.Value, key ssa.Value, val ssa.Value, ok bool) {
	cc := AsCall(in)
	if cc == nil {
		return nil, nil, nil, false
	}
	n := CalleeName(cc)
	if n != "(net/http.Header).Set" && n != "(net/http.Header).Add" {
		return nil, nil, nil, false
	}
	hdr := cc.Args[0]
	if t, f, req, isF := FieldOf(hdr); isF && t == "net/http.Request" && f == "Header" {
		recvReq = Unwrap(req)
	}
	return recvReq, cc.Args[1], cc.Args[2], true
}

func runC10(c *Ctx) {
	hostMatchNeedsEqualLabelCount(c, "R7")
	extraHeadersLookedUpPerURL(c, "R7")
	p := c.P
	noUserinfoOnRedirect(c, "R1")
	verifyUsesOnlyVerifyAction(c, "R1")
	// the secret sent to a host is the one the credential helper returned for that host: the helper is asked through
	// the line protocol whose integrity C17 decides (shared)
	c.RulePrefix = "C17/"
	runC17(c)
	c.RulePrefix = ""
	// ---- locate the redirect request builder: creates an http.Request and copies headers from a parameter request
	var builder *ssa.Function
	var copySites []ssa.Instruction
	nBuilders := 0
	for _, fn := range p.RepoFuncs(productPkg) {
		var sites []ssa.Instruction
		for _, b := range fn.Blocks {
			for _, in := range b.Instrs {
				_, _, val, ok := isHeaderWrite(in)
				if !ok {
					continue
				}
				// value derives from another request's header (Header.Get on a parameter request)
				fromReq := false
				for _, l := range p.LeavesNoFields(val, func(v ssa.Value) FlowAct {
					if cc, _, ok := CallResult(v); ok && CalleeName(cc.Common()) == "(net/http.Header).Get" {
						return Stop
					}
					return Descend
				}) {
					if cc, _, ok := CallResult(l); ok && CalleeName(cc.Common()) == "(net/http.Header).Get" {
						if t, f, _, isF := FieldOf(cc.Call.Args[0]); isF && t == "net/http.Request" && f == "Header" {
							fromReq = true
						}
					}
				}
				if fromReq {
					sites = append(sites, in)
				}
			}
		}
		if len(sites) > 0 {
			nBuilders++
			builder = fn
			copySites = sites
			c.Check(FnName(fn) == "lfshttp.newRequestForRetry", "R3", "header-carrier:"+FnName(fn), p.Pos(fn.Pos()), "the one function that carries headers from one request to another", "a second function copies header values from one request onto another; the cross-host Authorization rule is only enforced in newRequestForRetry")
		}
	}
	if nBuilders == 0 {
		c.Missing("R1", "redirect request builder", "no function copies headers from one request to a new one; the anchor moved")
		return
	}
	if nBuilders == 1 {
		c10Builder(c, builder, copySites)
	}
	c10Clients(c)
	c10Hops(c)
	c10AuthSites(c)
	c10CredURL(c)
	c10AuthChain(c)
	c10CacheKey(c)
}

func c10Builder(c *Ctx, fn *ssa.Function, copySites []ssa.Instruction) {
	p := c.P
	var oldReq *ssa.Parameter
	for _, prm := range fn.Params {
		if short(prm.Type().String()) == "*net/http.Request" {
			oldReq = prm
		}
	}
	if oldReq == nil {
		c.Missing("R1", "old request parameter", "no *http.Request parameter")
		return
	}
	// same-host test: Host(old) == Host(new)
	hostEq := func(cond ssa.Value) (bool, bool) {
		op, x, y, ok := BinCmp(cond)
		if !ok || (op != token.EQL && op != token.NEQ) {
			return false, false
		}
		r1, ok1 := urlFieldOfRequest(x, "Host")
		r2, ok2 := urlFieldOfRequest(y, "Host")
		if ok1 && ok2 && r1 != r2 && (r1 == ssa.Value(oldReq) || r2 == ssa.Value(oldReq)) {
			return op == token.EQL, true
		}
		return false, false
	}
	// `sameHost := a == b` is a value used in a later If: find Ifs whose cond *is* such a BinOp (possibly through the bool variable)
	passHost := PassEdges(fn, hostEq)
	loops := Loops(fn)
	for i, site := range copySites {
		key := fmt.Sprintf("%s:copy#%d", FnName(fn), i)
		l := LoopOf(loops, site.Block())
		entry := fn.Blocks[0]
		if l != nil {
			entry = l.Body
		}
		_, hk, _, _ := isHeaderWrite(site)
		if s, isConst := ConstString(hk); isConst && !strings.EqualFold(s, "Authorization") {
			continue
		}
		// assume the key being copied is Authorization
		assume := func(v ssa.Value) (*ssa.Const, bool) {
			op, x, y, ok := BinCmp(v)
			if !ok || (op != token.EQL && op != token.NEQ) {
				return nil, false
			}
			for _, pair := range [][2]ssa.Value{{x, y}, {y, x}} {
				if s, isC := ConstString(pair[1]); isC && strings.EqualFold(s, "Authorization") && SameValue(pair[0], hk) {
					return ssa.NewConst(constant.MakeBool(op == token.EQL), v.Type()), true
				}
			}
			if cc, isCall := v.(*ssa.Call); isCall && CalleeName(&cc.Call) == "strings.EqualFold" {
				return ssa.NewConst(constant.MakeBool(true), v.Type()), true
			}
			return nil, false
		}
		reached := false
		// the same-host test may be folded into a flag (`drop := key == "Authorization" && !sameHost`): under the
		// assumption above the φ stands for the host test on this path, so conditions are also matched after
		// resolving them against the path state
		dynHits := 0
		oldHook := dynCutHook
		dynCutHook = func(b *ssa.BasicBlock, idx int, st PState) bool {
			ifi, ok := lastInstr(b).(*ssa.If)
			if !ok {
				return false
			}
			rc := ResolveCond(ifi.Cond, st, 0)
			if rc == ifi.Cond {
				return false
			}
			cond, flip := stripNot(rc)
			passWhen, ok := hostEq(cond)
			if !ok {
				return false
			}
			if flip {
				passWhen = !passWhen
			}
			if (idx == 0) == passWhen {
				dynHits++
				return true
			}
			return false
		}
		defer func() { dynCutHook = oldHook }()
		ExploreX(entry, nil, nil, nil, EdgeSet(passHost), assume, func(in ssa.Instruction, st PState) bool {
			if in == site {
				reached = true
				return false
			}
			if l != nil && in.Block() == l.Header {
				return false
			}
			return true
		})
		dynCutHook = oldHook
		if len(passHost) == 0 && dynHits == 0 {
			c.Bad("R1", key, p.InstrPos(site), "no comparison of the two requests' URL.Host (host:port) guards the header copy: Authorization is carried to another host or port")
			continue
		}
		c.Check(!reached, "R1", key, p.InstrPos(site), "an Authorization header is copied to the redirected request only when both URLs have the same host:port",
			"an Authorization header can be copied onto the redirected request without the same-host (host:port) test having passed")
	}
	// R2: https -> http refused
	isScheme := func(v ssa.Value, want string, old bool) bool {
		op, x, y, ok := BinCmp(v)
		if !ok || op != token.EQL {
			return false
		}
		s, isC := ConstString(y)
		if !isC || s != want {
			return false
		}
		r, ok := urlFieldOfRequest(x, "Scheme")
		return ok && (r == ssa.Value(oldReq)) == old
	}
	nA, nB := 0, 0
	// φ-aware: `downgrade := a && b; if downgrade` and switch cases evaluate the conjunction as a value
	cut := PassEdges(fn, func(cond ssa.Value) (bool, bool) {
		if isScheme(cond, "https", true) {
			nA++
			return false, true
		}
		if isScheme(cond, "http", false) {
			nB++
			return false, true
		}
		return false, false
	})
	for _, r := range ReturnsOf(fn) {
		if IsNilConst(r.Results[0]) {
			continue
		}
		nArr, ok, path := GuardedArrivals(fn, r, 0, func(v ssa.Value) bool { return !IsNilConst(v) }, cut, nil)
		if nArr == 0 {
			continue
		}
		c.Check(ok && nA > 0 && nB > 0, "R2", FnName(fn)+":https-to-http", p.InstrPos(r), "a redirected request is returned only when it is not https→http",
			"a redirected request can be returned although the original was https and the new one is http: "+path)
	}
}

// c10Clients (R3): net/http never follows redirects on its own.
func c10Clients(c *Ctx) {
	p := c.P
	n := 0
	for _, fn := range p.RepoFuncs(productPkg) {
		for _, b := range fn.Blocks {
			for _, in := range b.Instrs {
				al, ok := in.(*ssa.Alloc)
				if ok {
					if pt, isP := al.Type().(*types.Pointer); isP && isNamed(pt.Elem()) && typeName(pt.Elem()) == "net/http.Client" {
						n++
						good := false
						for _, r := range Referrers(al) {
							fa, ok := r.(*ssa.FieldAddr)
							if !ok {
								continue
							}
							if _, f := fieldAddrName(fa); f != "CheckRedirect" {
								continue
							}
							for _, rr := range Referrers(fa) {
								st, ok := rr.(*ssa.Store)
								if !ok {
									continue
								}
								var cf *ssa.Function
								switch x := Unwrap(st.Val).(type) {
								case *ssa.Function:
									cf = x
								case *ssa.MakeClosure:
									cf = x.Fn.(*ssa.Function)
								}
								if cf != nil {
									all := true
									for _, ret := range ReturnsOf(cf) {
										u, ok := ret.Results[0].(*ssa.UnOp)
										g, isG := ssa.Value(nil), false
										if ok {
											g, isG = u.X.(*ssa.Global)
										}
										if !isG || g.(*ssa.Global).Name() != "ErrUseLastResponse" {
											all = false
										}
									}
									good = all && len(ReturnsOf(cf)) > 0
								}
							}
						}
						c.Check(good, "R3", "http.Client-literal:"+FnName(fn), p.InstrPos(in), "CheckRedirect refuses every redirect (ErrUseLastResponse)", "an http.Client is built whose CheckRedirect does not refuse redirects: net/http would follow them itself, carrying headers along")
					}
				}
				if cc := AsCall(in); cc != nil {
					switch CalleeName(cc) {
					case "net/http.Get", "net/http.Post", "net/http.Head", "net/http.PostForm", "(*net/http.Client).Get", "(*net/http.Client).Post", "(*net/http.Client).Head":
						c.Bad("R3", "default-client-helper:"+FnName(fn), p.InstrPos(in), "a net/http convenience helper is used; it follows redirects with net/http's own rules")
					}
				}
				if u, ok := in.(*ssa.UnOp); ok {
					if g, ok := u.X.(*ssa.Global); ok && g.Name() == "DefaultClient" && g.Pkg.Pkg.Path() == "net/http" {
						c.Bad("R3", "default-client:"+FnName(fn), p.InstrPos(in), "http.DefaultClient is used; it follows redirects with net/http's own rules")
					}
				}
			}
		}
	}
	c.AtLeast("R3", "http.Client literals", n, 1)
}

// c10Hops (R4): the hop list strictly grows along the re-issue recursion and is tested against a small constant.
func c10Hops(c *Ctx) {
	p := c.P
	dwr := p.Fn("lfshttp", "(*Client).DoWithRedirect")
	if dwr == nil {
		c.Missing("R4", "(*lfshttp.Client).DoWithRedirect", "not found")
		return
	}
	var via *ssa.Parameter
	for _, prm := range dwr.Params {
		if short(prm.Type().String()) == "[]*net/http.Request" {
			via = prm
		}
	}
	if via == nil {
		c.Missing("R4", "via parameter", "DoWithRedirect has no []*http.Request parameter")
		return
	}
	// the bound test: len(X) >= K / > K with X derived from via
	var bound []Edge
	for _, b := range dwr.Blocks {
		ifi, ok := lastInstr(b).(*ssa.If)
		if !ok {
			continue
		}
		cond, flip := stripNot(ifi.Cond)
		op, x, y, ok := BinCmp(cond)
		if !ok {
			continue
		}
		k, isK := ConstInt(y)
		lc, isCall := x.(*ssa.Call)
		if !isK || !isCall || k < 1 || k > 10 {
			continue
		}
		if bi, ok := lc.Call.Value.(*ssa.Builtin); !ok || bi.Name() != "len" {
			continue
		}
		fromVia := false
		for _, l := range p.LeavesNoFields(lc.Call.Args[0], nil) {
			if l == ssa.Value(via) {
				fromVia = true
			}
		}
		if !fromVia {
			continue
		}
		// pass edge = "not too many"
		var passWhen bool
		switch op {
		case token.GEQ, token.GTR:
			passWhen = false
		case token.LSS, token.LEQ:
			passWhen = true
		default:
			continue
		}
		if flip {
			passWhen = !passWhen
		}
		if passWhen {
			bound = append(bound, Edge{b, 0})
		} else {
			bound = append(bound, Edge{b, 1})
		}
	}
	if len(bound) == 0 {
		c.Bad("R4", "hop-bound-test", p.Pos(dwr.Pos()), "DoWithRedirect does not compare the length of the hop list with a small constant")
	}
	for _, r := range ReturnsOf(dwr) {
		// returns that hand out a redirected request
		if IsNilConst(Resolve(r.Results[0], nil)) {
			continue
		}
		res0 := r.Results[0]
		ok, path := GuardedWhen(dwr.Blocks[0], r, bound, nil, func(st PState) bool {
			// arrivals that hand out no request (nil on this path) are not redirects
			v := Base(Resolve(res0, st), st)
			if cst, isC := EvalConst(v, st); isC && cst.Value == nil {
				return false
			}
			return !IsNilConst(v)
		})
		c.Check(ok && len(bound) > 0, "R4", "redirect-only-under-bound", p.InstrPos(r), "a redirected request is handed back only when the hop list is below the bound", "a redirect can be followed without the hop-count test: "+path)
	}
	// re-issue sites: functions that call DoWithRedirect and then call (directly or via one hop) themselves
	n := 0
	for _, fn := range p.RepoFuncs(productPkg) {
		calls := CallsIn(fn, "(*lfshttp.Client).DoWithRedirect")
		if len(calls) == 0 {
			continue
		}
		var fvia *ssa.Parameter
		for _, prm := range fn.Params {
			if short(prm.Type().String()) == "[]*net/http.Request" {
				fvia = prm
			}
		}
		for _, dc := range calls {
			call, ok := dc.(*ssa.Call)
			if !ok {
				continue
			}
			// the redirected request
			var redirected ssa.Value
			for _, r := range Referrers(call) {
				if ex, ok := r.(*ssa.Extract); ok && ex.Index == 0 {
					redirected = ex
				}
			}
			if redirected == nil {
				continue
			}
			// calls that pass the redirected request on
			for _, b := range fn.Blocks {
				for _, in := range b.Instrs {
					cc := AsCall(in)
					if cc == nil || in == ssa.Instruction(call) {
						continue
					}
					passes := false
					var viaArg ssa.Value
					for _, a := range cc.Args {
						if a == redirected {
							passes = true
						}
						if short(a.Type().String()) == "[]*net/http.Request" {
							viaArg = a
						}
					}
					if !passes {
						continue
					}
					n++
					key := "reissue:" + FnName(fn)
					if viaArg == nil {
						c.Bad("R4", key, p.InstrPos(in), "the redirected request is re-issued through a call that does not carry the hop list")
						continue
					}
					grows := false
					if ac, ok := viaArg.(*ssa.Call); ok {
						if bi, ok := ac.Call.Value.(*ssa.Builtin); ok && bi.Name() == "append" && fvia != nil {
							base := false
							for _, l := range p.LeavesNoFields(ac.Call.Args[0], nil) {
								if l == ssa.Value(fvia) {
									base = true
								}
							}
							els := variadicElems(ac.Call.Args[1])
							grows = base && len(els) >= 1
						}
					}
					c.Check(grows, "R4", key, p.InstrPos(in), "the hop list handed to the re-issued request is append(via, req): it strictly grows",
						"the redirected request is re-issued with a hop list that did not grow, so the redirect limit in DoWithRedirect never fires and a redirect loop is followed indefinitely")
				}
			}
		}
	}
	c.AtLeast("R4", "re-issue sites", n, 2)
}

// c10AuthSites (R5): where an Authorization header can be put on a request.
func c10AuthSites(c *Ctx) {
	p := c.P
	allowedConst := map[string]string{
		"lfsapi.setRequestAuth":          "basic credentials for the URL they were looked up for",
		"lfsapi.setRequestAuthWithCreds": "credential-helper result for credsURL",
	}
	allowedVar := map[string]string{
		"(*lfshttp.Client).NewRequest":        "headers of the ssh authenticate answer for this endpoint",
		"(*tq.adapterBase).newHTTPRequest":    "the action's own headers onto the action's own href",
		"tq.verifyUpload":                     "the verify action's own headers onto its own href",
		"lfshttp.newRequestForRetry":          "redirect copy (guarded by R1)",
		"(*tq.tusUploadAdapter).DoTransfer":   "tus protocol headers",
		"(*tq.basicUploadAdapter).DoTransfer": "upload headers",
	}
	nConst := 0
	for _, fn := range p.RepoFuncs(productPkg) {
		for _, b := range fn.Blocks {
			for _, in := range b.Instrs {
				_, key, _, ok := isHeaderWrite(in)
				if !ok {
					continue
				}
				if s, isC := ConstString(key); isC {
					if !strings.EqualFold(s, "Authorization") {
						continue
					}
					nConst++
					why, okSite := allowedConst[FnName(fn)]
					c.Check(okSite, "R5", "authorization-set:"+FnName(fn), p.InstrPos(in), "known site: "+why, "an Authorization header is set at a site the rules do not know; its provenance (which host the credentials were obtained for) is unchecked")
				} else {
					root := fn
					for root.Parent() != nil {
						root = root.Parent()
					}
					why, okSite := allowedVar[FnName(root)]
					c.Check(okSite, "R5", "header-map-copied:"+FnName(root), p.InstrPos(in), "known site: "+why, "headers with non-constant keys (possibly Authorization) are put on a request at a site the rules do not know")
				}
			}
		}
	}
	c.AtLeast("R5", "constant Authorization sites", nConst, 2)
	// setRequestAuth* are called only from the credential path
	for _, name := range []string{"lfsapi.setRequestAuth", "lfsapi.setRequestAuthWithCreds", "lfsapi.setRequestAuthFromURL"} {
		callers := map[string]bool{}
		for _, fn := range p.RepoFuncs(productPkg) {
			if len(CallsIn(fn, name)) > 0 {
				callers[FnName(fn)] = true
			}
		}
		allowed := map[string][]string{
			"lfsapi.setRequestAuth":          {"lfsapi.setRequestAuthFromURL", "lfsapi.setRequestAuthWithCreds"},
			"lfsapi.setRequestAuthWithCreds": {"(*lfsapi.Client).getCreds"},
			"lfsapi.setRequestAuthFromURL":   {"lfsapi.getCredURLForAPI"},
		}
		var ks []string
		for k := range callers {
			ks = append(ks, k)
		}
		sort.Strings(ks)
		for _, k := range ks {
			c.Check(nameIn(k, allowed[name]), "R5", "caller-of:"+name+":"+k, "-", "expected caller", name+" is called from an unexpected function: credentials may be applied to a request they were not obtained for")
		}
	}
}

// c10CredURL (R5): credentials are looked up for / applied from a URL only under scheme+host equality.
func c10CredURL(c *Ctx) {
	p := c.P
	fn := p.Fn("lfsapi", "getCredURLForAPI")
	if fn == nil {
		c.Missing("R5", "lfsapi.getCredURLForAPI", "not found")
		return
	}
	var req *ssa.Parameter
	for _, prm := range fn.Params {
		if short(prm.Type().String()) == "*net/http.Request" {
			req = prm
		}
	}
	// equality tests between URL fields
	eqField := func(field string, a, b func(ssa.Value) bool) []Edge {
		return PassEdges(fn, func(cond ssa.Value) (bool, bool) {
			op, x, y, ok := BinCmp(cond)
			if !ok || (op != token.EQL && op != token.NEQ) {
				return false, false
			}
			t1, f1, b1, ok1 := FieldOf(x)
			t2, f2, b2, ok2 := FieldOf(y)
			if !ok1 || !ok2 || t1 != "net/url.URL" || t2 != "net/url.URL" || f1 != field || f2 != field {
				return false, false
			}
			if a(b1) && b(b2) || a(b2) && b(b1) {
				return op == token.EQL, true
			}
			return false, false
		})
	}
	isReqURL := func(v ssa.Value) bool {
		t, f, base, ok := FieldOf(v)
		return ok && t == "net/http.Request" && f == "URL" && Unwrap(base) == ssa.Value(req)
	}
	fromParse := func(argPred func(ssa.Value) bool) func(ssa.Value) bool {
		return func(v ssa.Value) bool {
			cc, idx, ok := CallResult(v)
			return ok && idx == 0 && CalleeName(cc.Common()) == "net/url.Parse" && argPred(cc.Call.Args[0])
		}
	}
	isAPI := fromParse(func(a ssa.Value) bool { _, f, _, ok := FieldOf(a); return ok && f == "Url" })
	isRemote := fromParse(func(a ssa.Value) bool { _, f, _, ok2 := FieldOf(a); return !(ok2 && f == "Url") })
	// every call setRequestAuthFromURL(req, U): U is apiURL => req matches api on scheme and host; U is remote => remote matches api and req matches api
	n := 0
	for _, ci := range CallsIn(fn, "lfsapi.setRequestAuthFromURL") {
		n++
		u := ci.Common().Args[1]
		key := "apply-url-credentials"
		var needs [][]Edge
		switch {
		case isAPI(u):
			key += ":api-url"
			needs = [][]Edge{eqField("Scheme", isReqURL, isAPI), eqField("Host", isReqURL, isAPI)}
		case isRemote(u):
			key += ":remote-url"
			needs = [][]Edge{eqField("Scheme", isReqURL, isAPI), eqField("Host", isReqURL, isAPI), eqField("Scheme", isRemote, isAPI), eqField("Host", isRemote, isAPI)}
		default:
			c.Undecided("R5", key, p.InstrPos(ci), "cannot tell which URL's userinfo is applied")
			continue
		}
		good := true
		why := ""
		for _, pass := range needs {
			ok, path := Guarded(fn.Blocks[0], ci, pass, nil)
			if !ok || !nonVacuous(pass) {
				good = false
				why = "URL-embedded credentials can be applied to a request whose scheme/host was not compared equal: " + path
			}
		}
		c.Check(good, "R5", key, p.InstrPos(ci), "URL-embedded credentials are applied only under scheme and host equality with the request", why)
	}
	c.AtLeast("R5", "URL credential sites", n, 2)
	// returns: a URL other than req.URL is returned for lookup only when req matches the API URL on scheme and host
	for _, r := range ReturnsOf(fn) {
		v := r.Results[0]
		if IsNilConst(v) || isReqURL(v) {
			continue
		}
		pass1 := eqField("Scheme", isReqURL, isAPI)
		pass2 := eqField("Host", isReqURL, isAPI)
		ok1, _ := Guarded(fn.Blocks[0], r, pass1, nil)
		ok2, path := Guarded(fn.Blocks[0], r, pass2, nil)
		if isRemote(v) {
			p3 := eqField("Scheme", isRemote, isAPI)
			p4 := eqField("Host", isRemote, isAPI)
			ok3, _ := Guarded(fn.Blocks[0], r, p3, nil)
			ok4, pth := Guarded(fn.Blocks[0], r, p4, nil)
			c.Check(ok3 && ok4 && nonVacuous(p3) && nonVacuous(p4), "R5", "lookup-url:remote-matches-api", p.InstrPos(r), "the Git remote URL is used for the credential lookup only when its scheme and host:port equal the API's",
				"credentials can be looked up for a Git remote on a different scheme or host:port than the LFS API they are sent to: "+pth)
		}
		c.Check(ok1 && ok2 && nonVacuous(pass1) && nonVacuous(pass2), "R5", "lookup-url:"+describeRet(p, v), p.InstrPos(r), "credentials are looked up for another URL than the request's only when scheme and host:port agree",
			"credentials can be looked up for the API/remote URL and placed on a request to a different scheme or host: "+path)
	}
}

func describeRet(p *Prog, v ssa.Value) string {
	if cc, _, ok := CallResult(v); ok {
		return CalleeName(cc.Common())
	}
	return describeValue(p, v)
}

// c10AuthChain (R6)
func c10AuthChain(c *Ctx) {
	p := c.P
	fn := p.Fn("lfsapi", "(*Client).doWithAuth")
	if fn == nil {
		c.Missing("R6", "(*lfsapi.Client).doWithAuth", "not found")
		return
	}
	// before anything is sent the attempt counter is tested: every call that sends the request lies behind the
	// "counter has not reached defaultMaxAuthAttempts" edge (a path rule, so the test may sit in a helper that was
	// expanded in place)
	pass := PassEdges(fn, func(cond ssa.Value) (bool, bool) {
		op, x, y, isCmp := BinCmp(cond)
		if !isCmp {
			return false, false
		}
		isMax := func(v ssa.Value) bool {
			u, ok := v.(*ssa.UnOp)
			if !ok {
				return false
			}
			g, ok := u.X.(*ssa.Global)
			return ok && g.Name() == "defaultMaxAuthAttempts"
		}
		if isMax(x) {
			x, y = y, x
			switch op {
			case token.LSS:
				op = token.GTR
			case token.LEQ:
				op = token.GEQ
			case token.GTR:
				op = token.LSS
			case token.GEQ:
				op = token.LEQ
			}
		}
		if _, isDeref := Unwrap(x).(*ssa.UnOp); !isDeref || !isMax(y) {
			return false, false
		}
		switch op {
		case token.EQL, token.GEQ:
			return false, true
		case token.NEQ, token.LSS:
			return true, true
		}
		return false, false
	})
	good := nonVacuous(pass)
	nSend := 0
	for _, ci := range CallsIn(fn, "(*lfsapi.Client).doWithCreds", "(*lfsapi.Client).getCreds") {
		nSend++
		if g, _ := Guarded(fn.Blocks[0], ci, pass, nil); !g {
			good = false
		}
	}
	if nSend == 0 {
		good = false
	}
	c.Check(good, "R6", "doWithAuth:attempt-limit-at-entry", p.Pos(fn.Pos()), "authentication attempts are refused once the counter reaches the maximum", "doWithAuth does not start with the attempt-counter test")
	// Approve only for 2xx
	for _, ci := range CallsInDeep(fn, "(creds.CredentialHelper).Approve") {
		lt := PassEdges(fn, func(cond ssa.Value) (bool, bool) {
			op, x, y, ok := BinCmp(cond)
			if !ok {
				return false, false
			}
			if k, isK := ConstInt(y); isK {
				if _, f, _, isF := FieldOf(x); isF && f == "StatusCode" {
					if op == token.LSS && k == 300 || op == token.LEQ && k == 299 {
						return true, true
					}
				}
			}
			return false, false
		})
		gt := PassEdges(fn, func(cond ssa.Value) (bool, bool) {
			op, x, y, ok := BinCmp(cond)
			if !ok {
				return false, false
			}
			if k, isK := ConstInt(y); isK {
				if _, f, _, isF := FieldOf(x); isF && f == "StatusCode" {
					if op == token.GTR && k == 199 || op == token.GEQ && k == 200 {
						return true, true
					}
				}
			}
			return false, false
		})
		ok1, _ := Guarded(fn.Blocks[0], ci, lt, nil)
		ok2, path := Guarded(fn.Blocks[0], ci, gt, nil)
		c.Check(ok1 && ok2 && len(lt) > 0 && len(gt) > 0, "R6", "approve-only-2xx", p.InstrPos(ci), "credentials are approved only after a 2xx response", "credentials can be approved (stored by the helper) without a 2xx response: "+path)
	}
}

var c10Canaries = []Canary{
	{Name: "r7-extra-headers-cached-per-host", ExpectKey: "C10.R7#extra-headers:built-per-request", Edits: []Edit{{File: "lfshttp/client.go", Find: "\thostClients map[hostData]*http.Client\n\tclientMu    sync.Mutex\n\n\thttpLogger *syncLogger\n\n\tgitEnv config.Environment\n", Repl: "\thostClients map[hostData]*http.Client\n\tclientMu    sync.Mutex\n\n\thostHeaders  map[string]map[string][]string\n\thostHeaderMu sync.Mutex\n\n\thttpLogger *syncLogger\n\n\tgitEnv config.Environment\n"}, {File: "lfshttp/client.go", Find: "}\n\nfunc (c *Client) extraHeaders(u *url.URL) map[string][]string {\n\thdrs := c.uc.GetAll(\"http\", u.String(), \"extraHeader\")\n\tm := make(map[string][]string, len(hdrs))\n\n", Repl: "}\n\nfunc (c *Client) extraHeaders(u *url.URL) map[string][]string {\n\t// Matching the http.<url>.extraHeader keys walks the entire Git\n\t// configuration, and a transfer sends at least one request per object.\n\t// Like the HTTP clients, keep the result for each server.\n\tc.hostHeaderMu.Lock()\n\tdefer c.hostHeaderMu.Unlock()\n\n\tif m, ok := c.hostHeaders[u.Host]; ok {\n\t\treturn m\n\t}\n\n\thdrs := c.uc.GetAll(\"http\", u.String(), \"extraHeader\")\n\tm := make(map[string][]string, len(hdrs))\n\n"}, {File: "lfshttp/client.go", Find: "\n\t\tm[k] = append(m[k], v)\n\t}\n\treturn m\n}\n\n", Repl: "\n\t\tm[k] = append(m[k], v)\n\t}\n\n\tif c.hostHeaders == nil {\n\t\tc.hostHeaders = make(map[string]map[string][]string)\n\t}\n\tc.hostHeaders[u.Host] = m\n\treturn m\n}\n\n"}}},
	{Name: "r7-subdomain-matches", ExpectKey: "C10.R7#compareHosts", Edits: []Edit{{File: "config/url_config.go", Find: "\tsearchHost := strings.Split(searchHostname, \".\")\n\tconfigHost := strings.Split(configHostname, \".\")\n\n\tif len(searchHost) != len(configHost) {\n\t\treturn 0\n\t}\n\n\tscore := len(searchHost) + 1\n\n\tfor i, subdomain := range searchHost {\n\t\tif configHost[i] == \"*\" {\n\t\t\tscore--\n\t\t\tcontinue\n", Repl: "\tsearchHost := strings.Split(searchHostname, \".\")\n\tconfigHost := strings.Split(configHostname, \".\")\n\n\tif len(searchHost) < len(configHost) {\n\t\treturn 0\n\t}\n\n\t// Line both names up on their last label, so that a leading \"*\" can\n\t// stand for more than one level of subdomains.\n\toffset := len(searchHost) - len(configHost)\n\tscore := len(configHost) + 1\n\n\tfor i, subdomain := range searchHost[offset:] {\n\t\tif configHost[i] == \"*\" {\n\t\t\tscore--\n\t\t\tcontinue\n"}}},
	{Name: "r6-verify-falls-back-to-other-action", ExpectKey: "C10.R1#verify:only-the-verify-action", Edits: []Edit{{File: "tq/verify.go", Find: "\n\treq.Header.Set(\"Content-Type\", \"application/vnd.git-lfs+json\")\n\treq.Header.Set(\"Accept\", \"application/vnd.git-lfs+json\")\n\tfor key, value := range action.Header {\n\t\treq.Header.Set(key, value)\n\t}\n\n", Repl: "\n\treq.Header.Set(\"Content-Type\", \"application/vnd.git-lfs+json\")\n\treq.Header.Set(\"Accept\", \"application/vnd.git-lfs+json\")\n\theaders := action.Header\n\tif len(headers) == 0 {\n\t\t// Some servers only attach their auth header to the upload\n\t\t// action and expect the same header on the verify call.\n\t\tif upload, _ := t.Rel(\"upload\"); upload != nil {\n\t\t\theaders = upload.Header\n\t\t}\n\t}\n\tfor key, value := range headers {\n\t\treq.Header.Set(key, value)\n\t}\n\n"}}},
	{Name: "r5-userinfo-on-redirect", ExpectKey: "C10.R1#url-userinfo-assigned", Edits: []Edit{{File: "lfshttp/client.go", Find: "\tsameHost := req.URL.Host == newReq.URL.Host\n", Repl: "\tif newReq.URL.User == nil {\n\t\tnewReq.URL.User = req.URL.User\n\t}\n\tsameHost := req.URL.Host == newReq.URL.Host\n"}}},
	{Name: "drop-samehost", ExpectKey: "C10.R1", Edits: []Edit{{File: "lfshttp/client.go", Find: "			if !sameHost {\n				continue\n			}", Repl: "			if !sameHost && len(location) == 0 {\n				continue\n			}"}}},
	{Name: "port-blind-host", ExpectKey: "C10.R1", Edits: []Edit{{File: "lfshttp/client.go", Find: "	sameHost := req.URL.Host == newReq.URL.Host", Repl: "	sameHost := req.URL.Hostname() == newReq.URL.Hostname()"}}},
	{Name: "drop-scheme-test", ExpectKey: "C10.R2", Edits: []Edit{{File: "lfshttp/client.go", Find: "	if req.URL.Scheme == \"https\" && newReq.URL.Scheme == \"http\" {", Repl: "	if req.URL.Scheme == \"https\" && newReq.URL.Scheme == \"http\" && newReq.URL.Port() == \"80\" {"}}},
	{Name: "follow-redirects", ExpectKey: "C10.R3", Edits: []Edit{{File: "lfshttp/client.go", Find: "		CheckRedirect: func(*http.Request, []*http.Request) error {\n			return http.ErrUseLastResponse\n		},", Repl: "		CheckRedirect: func(r *http.Request, via []*http.Request) error {\n			if len(via) > 10 {\n				return http.ErrUseLastResponse\n			}\n			return nil\n		},"}}},
	{Name: "hop-list-not-grown", ExpectKey: "C10.R4", Edits: []Edit{{File: "lfshttp/client.go", Find: "	return c.doWithRedirects(cli, redirectedReq, remote, append(via, req))", Repl: "	return c.doWithRedirects(cli, redirectedReq, remote, via)"}}},
	{Name: "hop-list-not-grown-auth", ExpectKey: "C10.R4", Edits: []Edit{{File: "lfsapi/auth.go", Find: "	return c.doWithAuth(\"\", count, access, redirectedReq, append(via, req))", Repl: "	return c.doWithAuth(\"\", count, access, redirectedReq, via)"}}},
	{Name: "creds-for-api-on-other-host", ExpectKey: "C10.R5", Edits: []Edit{{File: "lfsapi/auth.go", Find: "	if req.URL.Scheme != apiURL.Scheme ||\n		req.URL.Host != apiURL.Host {\n		return req.URL, nil\n	}", Repl: "	if req.URL.Scheme != apiURL.Scheme {\n		return req.URL, nil\n	}"}}},
	{Name: "approve-always", ExpectKey: "C10.R6", Edits: []Edit{{File: "lfsapi/auth.go", Find: "	if res != nil && res.StatusCode < 300 && res.StatusCode > 199 {", Repl: "	if res != nil && res.StatusCode < 500 && res.StatusCode > 199 {"}}},
	{Name: "new-authorization-site", ExpectKey: "C10.R5", Edits: []Edit{{File: "lfsapi/auth.go", Find: "	req.Header.Set(\"User-Agent\", lfshttp.UserAgent)\n", Repl: "	req.Header.Set(\"User-Agent\", lfshttp.UserAgent)\n	if a := os.Getenv(\"GIT_LFS_AUTH\"); a != \"\" {\n		req.Header.Set(\"Authorization\", a)\n	}\n"}}},
}

func isNamed(t types.Type) bool { _, ok := t.(*types.Named); return ok }

// c10CacheKey (R7): approved credentials are kept in an in-process cache and handed back for later requests. The
// cache key must contain the protocol and the host(:port) of the request they were approved for — a key without
// the protocol hands https credentials to a plain-http URL on the same host. Decided on the key function: the
// attribute names it reads from the credential set include "protocol" and "host", and every cache access goes
// through that function.
func c10CacheKey(c *Ctx) {
	p := c.P
	kf := p.Fn("creds", "credCacheKey")
	if kf == nil {
		c.Missing("R7", "creds.credCacheKey", "not found")
		return
	}
	reads := map[string]bool{}
	for _, ci := range CallsIn(kf, "creds.FirstEntryForKey") {
		if s, ok := ConstString(ci.Common().Args[1]); ok {
			reads[s] = true
		}
	}
	for _, b := range kf.Blocks {
		for _, in := range b.Instrs {
			if lk, ok := in.(*ssa.Lookup); ok {
				if s, ok := ConstString(lk.Index); ok {
					reads[s] = true
				}
			}
		}
	}
	var ks []string
	for k := range reads {
		ks = append(ks, k)
	}
	sort.Strings(ks)
	c.Check(reads["protocol"] && reads["host"], "R7", "cache-key:protocol+host", p.Pos(kf.Pos()), "the credential cache key is built from protocol, host (and path)",
		fmt.Sprintf("the credential cache key is built from %v: without the protocol and the host credentials approved for one scheme/host are returned for another", ks))
	// all accesses to the cache map use that key
	n := 0
	for _, fn := range p.RepoFuncs(func(s string) bool { return s == Mod+"/creds" }) {
		if !strings.HasPrefix(FnName(fn), "(*creds.credentialCacher).") {
			continue
		}
		for _, b := range fn.Blocks {
			for _, in := range b.Instrs {
				var key ssa.Value
				switch x := in.(type) {
				case *ssa.Lookup:
					if _, f, _, ok := FieldOf(x.X); ok && f == "creds" {
						key = x.Index
					}
				case *ssa.MapUpdate:
					if _, f, _, ok := FieldOf(x.Map); ok && f == "creds" {
						key = x.Key
					}
				}
				if cc := AsCall(in); cc != nil {
					if bi, ok := cc.Value.(*ssa.Builtin); ok && bi.Name() == "delete" {
						if _, f, _, ok := FieldOf(cc.Args[0]); ok && f == "creds" {
							key = cc.Args[1]
						}
					}
				}
				if key == nil {
					continue
				}
				n++
				kc, _, isRes := CallResult(key)
				c.Check(isRes && kc.Call.StaticCallee() == kf, "R7", fmt.Sprintf("cache-access-uses-key#%d", n), p.InstrPos(in), "cache accessed under credCacheKey(creds)", "the credential cache is accessed under a key that is not credCacheKey of the request's attributes")
			}
		}
	}
	c.AtLeast("R7", "credential cache accesses", n, 3)
}
