package main

import (
	"fmt"
	"go/ast"
	"go/token"
	"go/types"
	"os"
	"path/filepath"
	"sort"
	"strings"

	"golang.org/x/tools/go/callgraph"
	"golang.org/x/tools/go/callgraph/cha"
	"golang.org/x/tools/go/callgraph/vta"
	"golang.org/x/tools/go/packages"
	"golang.org/x/tools/go/ssa"
	"golang.org/x/tools/go/ssa/ssautil"
)

// Mod is the module path of the analysed repository.
const Mod = "github.com/git-lfs/git-lfs/v3"

// Prog is the loaded, type-checked program in SSA form.
type Prog struct {
	Dir          string
	Fset         *token.FileSet
	Pkgs         []*packages.Package
	byPath       map[string]*packages.Package
	SSA          *ssa.Program
	ssaPkg       map[string]*ssa.Package
	cg           *callgraph.Graph
	allFns       map[*ssa.Function]bool
	GOOS         string
	GOARCH       string
	srcFns       []*ssa.Function // functions with syntax inside the repo module (incl. anonymous)
	fieldSt      map[string][]ssa.Value
	fileAST      map[string]*ast.File
	overlayFiles map[string][]byte
	Norm         *NormReport
	callSites    map[*ssa.Function][]*ssa.CallCommon
	usedAsValue  map[*ssa.Function]bool
}

// LoadOpts selects platform and overlays.
type LoadOpts struct {
	Dir     string
	GOOS    string
	GOARCH  string
	Overlay map[string][]byte
	NoSSA   bool
}

func goEnv(o LoadOpts) []string {
	env := []string{}
	for _, e := range os.Environ() {
		if strings.HasPrefix(e, "GOFLAGS=") || strings.HasPrefix(e, "GOPROXY=") || strings.HasPrefix(e, "GOSUMDB=") ||
			strings.HasPrefix(e, "GOTOOLCHAIN=") || strings.HasPrefix(e, "GOWORK=") || strings.HasPrefix(e, "GOOS=") ||
			strings.HasPrefix(e, "GOARCH=") || strings.HasPrefix(e, "CGO_ENABLED=") {
			continue
		}
		env = append(env, e)
	}
	env = append(env, "GOFLAGS=-mod=mod", "GOPROXY=off", "GOSUMDB=off", "GOTOOLCHAIN=local", "GOWORK=off")
	if o.GOOS != "" {
		env = append(env, "GOOS="+o.GOOS, "CGO_ENABLED=0")
	}
	if o.GOARCH != "" {
		env = append(env, "GOARCH="+o.GOARCH, "CGO_ENABLED=0")
	}
	return env
}

// Load type-checks ./... of the repository and builds SSA. Any type error, or fewer
// packages than the repository is known to have, is a failure of the check itself.
func Load(o LoadOpts) (*Prog, error) {
	var norm *NormReport
	if !o.NoSSA {
		o.Overlay, norm = Normalise(o, loadInventory())
	}
	cfg := &packages.Config{
		Mode:    packages.LoadAllSyntax,
		Dir:     o.Dir,
		Env:     goEnv(o),
		Overlay: o.Overlay,
		Tests:   false,
	}
	pkgs, err := packages.Load(cfg, "./...")
	if err != nil {
		return nil, fmt.Errorf("packages.Load: %v", err)
	}
	var errs []string
	packages.Visit(pkgs, nil, func(p *packages.Package) {
		for _, e := range p.Errors {
			errs = append(errs, e.Error())
		}
	})
	if len(errs) > 0 {
		sort.Strings(errs)
		if len(errs) > 10 {
			errs = errs[:10]
		}
		return nil, fmt.Errorf("the tree does not type-check (%s/%s): %s", o.GOOS, o.GOARCH, strings.Join(errs, "; "))
	}
	if len(pkgs) < 25 {
		return nil, fmt.Errorf("only %d packages loaded from %s (expected >= 25)", len(pkgs), o.Dir)
	}
	p := &Prog{Norm: norm, overlayFiles: o.Overlay, Dir: o.Dir, Pkgs: pkgs, byPath: map[string]*packages.Package{}, ssaPkg: map[string]*ssa.Package{}, GOOS: o.GOOS, GOARCH: o.GOARCH, fileAST: map[string]*ast.File{}}
	if len(pkgs) > 0 {
		p.Fset = pkgs[0].Fset
	}
	packages.Visit(pkgs, nil, func(pk *packages.Package) { p.byPath[pk.PkgPath] = pk })
	for _, pk := range pkgs {
		for i, f := range pk.Syntax {
			if i < len(pk.CompiledGoFiles) {
				p.fileAST[pk.CompiledGoFiles[i]] = f
			}
		}
	}
	if o.NoSSA {
		return p, nil
	}
	prog, spkgs := ssautil.AllPackages(pkgs, ssa.InstantiateGenerics)
	prog.Build()
	p.SSA = prog
	for i, sp := range spkgs {
		if sp != nil {
			p.ssaPkg[pkgs[i].PkgPath] = sp
		}
	}
	for _, sp := range prog.AllPackages() {
		if _, ok := p.ssaPkg[sp.Pkg.Path()]; !ok {
			p.ssaPkg[sp.Pkg.Path()] = sp
		}
	}
	p.allFns = ssautil.AllFunctions(prog)
	for fn := range p.allFns {
		if fn.Pkg != nil && strings.HasPrefix(fn.Pkg.Pkg.Path(), Mod) && fn.Blocks != nil {
			p.srcFns = append(p.srcFns, fn)
		}
	}
	sort.Slice(p.srcFns, func(i, j int) bool { return p.srcFns[i].String() < p.srcFns[j].String() })
	return p, nil
}

// CallGraph builds (once) the VTA call graph.
func (p *Prog) CallGraph() *callgraph.Graph {
	if p.cg == nil {
		p.cg = vta.CallGraph(p.allFns, cha.CallGraph(p.SSA))
	}
	return p.cg
}

// PkgPath expands a short package name ("tq", "git/githistory") to its import path.
func PkgPath(short string) string {
	if short == "" {
		return Mod
	}
	if strings.Contains(short, ".") && !strings.HasPrefix(short, "git/") && !strings.HasPrefix(short, "tools/") {
		return short // already a full path such as github.com/...
	}
	return Mod + "/" + short
}

// Pkg returns the SSA package for a short or full path.
func (p *Prog) Pkg(short string) *ssa.Package {
	if sp, ok := p.ssaPkg[PkgPath(short)]; ok {
		return sp
	}
	if sp, ok := p.ssaPkg[short]; ok {
		return sp
	}
	return nil
}

// Fn resolves "pkg", "Name" or "(*T).Name" / "(T).Name" through the type information.
// It returns nil when the anchor does not exist.
func (p *Prog) Fn(pkg, name string) *ssa.Function {
	sp := p.Pkg(pkg)
	if sp == nil {
		return nil
	}
	if !strings.HasPrefix(name, "(") {
		return sp.Func(name)
	}
	// (*T).M or (T).M
	end := strings.Index(name, ")")
	if end < 0 {
		return nil
	}
	recv := name[1:end]
	meth := strings.TrimPrefix(name[end+1:], ".")
	ptr := strings.HasPrefix(recv, "*")
	recv = strings.TrimPrefix(recv, "*")
	tn := sp.Type(recv)
	if tn == nil {
		return nil
	}
	var t types.Type = tn.Type()
	if ptr {
		t = types.NewPointer(t)
	}
	sel := p.SSA.MethodSets.MethodSet(t).Lookup(sp.Pkg, meth)
	if sel == nil {
		// try the other receiver form
		if !ptr {
			sel = p.SSA.MethodSets.MethodSet(types.NewPointer(t)).Lookup(sp.Pkg, meth)
		}
		if sel == nil {
			return nil
		}
	}
	return p.SSA.MethodValue(sel)
}

// WithAnon returns fn followed by all (transitively) nested anonymous functions.
func WithAnon(fn *ssa.Function) []*ssa.Function {
	if fn == nil {
		return nil
	}
	out := []*ssa.Function{fn}
	for _, a := range fn.AnonFuncs {
		out = append(out, WithAnon(a)...)
	}
	return out
}

// RepoFuncs returns all functions with bodies whose package is inside the module, optionally
// restricted by a package-path predicate.
func (p *Prog) RepoFuncs(pred func(pkgPath string) bool) []*ssa.Function {
	var out []*ssa.Function
	for _, fn := range p.srcFns {
		if pred == nil || pred(fn.Pkg.Pkg.Path()) {
			out = append(out, fn)
		}
	}
	return out
}

// productPkg is true for packages that make up the shipped client (not test helpers, generators).
func productPkg(path string) bool {
	rel := strings.TrimPrefix(strings.TrimPrefix(path, Mod), "/")
	if rel == "t" || strings.HasPrefix(rel, "t/") || strings.HasPrefix(rel, "script") || strings.HasPrefix(rel, "tr/trgen") || strings.HasPrefix(rel, "docs") {
		return false
	}
	return strings.HasPrefix(path, Mod)
}

// short strips the module prefix from a qualified name for display and matching.
func short(s string) string {
	return strings.ReplaceAll(s, Mod+"/", "")
}

// Pos renders a position relative to the repository root.
func (p *Prog) Pos(pos token.Pos) string {
	if !pos.IsValid() {
		return "-"
	}
	ps := p.Fset.Position(pos)
	rel, err := filepath.Rel(p.Dir, ps.Filename)
	if err != nil || strings.HasPrefix(rel, "..") {
		rel = ps.Filename
	}
	return fmt.Sprintf("%s:%d", rel, ps.Line)
}

// InstrPos gives the best position available for an instruction.
func (p *Prog) InstrPos(in ssa.Instruction) string {
	if in == nil {
		return "-"
	}
	if in.Pos().IsValid() {
		return p.Pos(in.Pos())
	}
	// fall back to the nearest positioned instruction in the same block, then the function
	if b := in.Block(); b != nil {
		for _, x := range b.Instrs {
			if x.Pos().IsValid() {
				return p.Pos(x.Pos()) + "~"
			}
		}
		if b.Parent() != nil {
			return p.Pos(b.Parent().Pos()) + "~"
		}
	}
	return "-"
}

// FnName is a stable, module-relative display name.
func FnName(fn *ssa.Function) string {
	if fn == nil {
		return "<nil>"
	}
	return short(fn.String())
}
