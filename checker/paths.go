package main

import (
	"fmt"
	"go/constant"
	"go/token"
	"go/types"
	"sort"
	"strings"

	"golang.org/x/tools/go/ssa"
)

// Forward exploration of feasible paths with constant tracking of φ-nodes (and, optionally,
// parameters bound to constants). This is the small amount of path sensitivity the rules
// need for flags such as `complete`, `rangeRequestOk`, `fromByte = 0; hash = nil`.

// PState maps φ-nodes/parameters to known constants and local cells (Alloc) to the value last stored.
type PState map[ssa.Value]ssa.Value

func (s PState) clone() PState {
	n := PState{}
	for k, v := range s {
		n[k] = v
	}
	return n
}

func (s PState) key() string {
	var parts []string
	for k, v := range s {
		if c, ok := v.(*ssa.Const); ok {
			parts = append(parts, k.Name()+"="+c.String())
		} else {
			parts = append(parts, k.Name()+"=@"+v.Name())
		}
	}
	sort.Strings(parts)
	return strings.Join(parts, ";")
}

// nonNil is the key under which a path records that an SSA value is known not to be nil (learnt from a
// branch on `v != nil` / `v == nil`). It only serves as a map key of PState.
type nonNil struct{ v ssa.Value }

func (k nonNil) Name() string                  { return "nonnil:" + k.v.Name() }
func (k nonNil) String() string                { return k.Name() }
func (k nonNil) Type() types.Type              { return k.v.Type() }
func (k nonNil) Parent() *ssa.Function         { return k.v.Parent() }
func (k nonNil) Referrers() *[]ssa.Instruction { return nil }
func (k nonNil) Pos() token.Pos                { return token.NoPos }

// Base follows the φ-nodes (and tracked cells) bound on this path down to the value they stand for.
func Base(v ssa.Value, st PState) ssa.Value {
	for i := 0; i < 16; i++ {
		switch x := v.(type) {
		case *ssa.Phi:
			if b, ok := st[x]; ok && b != ssa.Value(x) {
				v = b
				continue
			}
		case *ssa.ChangeType:
			v = x.X
			continue
		case *ssa.UnOp:
			if x.Op == token.MUL {
				if al, ok := x.X.(*ssa.Alloc); ok {
					if sv, ok := st[al]; ok {
						v = sv
						continue
					}
				}
			}
		}
		break
	}
	return v
}

var evalDepth int

// ExploreOverflow is set when an exploration ran into its step bound (the verdict of the caller is then
// not a proof of unreachability; Finish reports it).
var ExploreOverflow bool

// assumeHook, when set (single-threaded use by ExploreX), supplies assumed constants for values.
var assumeHook func(v ssa.Value) (*ssa.Const, bool)

// EvalConst evaluates v to a constant under the state, if it can.
func EvalConst(v ssa.Value, st PState) (*ssa.Const, bool) {
	evalDepth++
	defer func() { evalDepth-- }()
	if evalDepth > 40 {
		return nil, false // bindings that refer to each other (a cell holding a φ that loads the cell)
	}
	if assumeHook != nil {
		if c, ok := assumeHook(v); ok {
			return c, true
		}
	}
	if _, isC := v.(*ssa.Const); !isC {
		if c, ok := st[v].(*ssa.Const); ok {
			return c, true
		}
	}
	switch x := v.(type) {
	case *ssa.Const:
		return x, true
	case *ssa.Phi:
		if b := Base(x, st); b != ssa.Value(x) {
			return EvalConst(b, st)
		}
		return nil, false
	case *ssa.Parameter:
		return nil, false
	case *ssa.Convert:
		return EvalConst(x.X, st)
	case *ssa.ChangeType:
		return EvalConst(x.X, st)
	case *ssa.UnOp:
		if x.Op == token.MUL {
			if al, ok := x.X.(*ssa.Alloc); ok {
				if sv, ok := st[al]; ok {
					if c, ok := sv.(*ssa.Const); ok {
						return c, true
					}
					return EvalConst(sv, st)
				}
			}
			return nil, false
		}
		if x.Op == token.NOT {
			if c, ok := EvalConst(x.X, st); ok && c.Value != nil && c.Value.Kind() == constant.Bool {
				return ssa.NewConst(constant.MakeBool(!constant.BoolVal(c.Value)), x.Type()), true
			}
		}
		return nil, false
	case *ssa.BinOp:
		a, ok1 := EvalConst(x.X, st)
		b, ok2 := EvalConst(x.Y, st)
		if x.Op == token.EQL || x.Op == token.NEQ {
			// a value this path has seen tested against nil
			var other ssa.Value
			if ok2 && b.Value == nil && !ok1 {
				other = x.X
			} else if ok1 && a.Value == nil && !ok2 {
				other = x.Y
			}
			if other != nil {
				ob := Base(other, st)
				if _, nn := st[nonNil{ob}]; nn || NeverNil(ob) {
					return ssa.NewConst(constant.MakeBool(x.Op == token.NEQ), x.Type()), true
				}
			}
		}
		switch x.Op {
		case token.EQL, token.NEQ, token.LSS, token.LEQ, token.GTR, token.GEQ:
			if ok1 && ok2 {
				if a.Value == nil || b.Value == nil {
					// nil comparisons: only nil == nil is decidable
					if a.Value == nil && b.Value == nil && (x.Op == token.EQL || x.Op == token.NEQ) {
						return ssa.NewConst(constant.MakeBool(x.Op == token.EQL), x.Type()), true
					}
					return nil, false
				}
				if a.Value.Kind() == b.Value.Kind() || (a.Value.Kind() != constant.String && b.Value.Kind() != constant.String && a.Value.Kind() != constant.Bool && b.Value.Kind() != constant.Bool) {
					return ssa.NewConst(constant.MakeBool(constant.Compare(a.Value, x.Op, b.Value)), x.Type()), true
				}
			}
		}
		return nil, false
	}
	return nil, false
}

// Explore walks all feasible paths starting right after instruction `after` (or at the start
// of block `from` when after is nil). visit is called for every instruction reached with the
// state on that path; returning false stops that path. Paths end at returns, panics and
// no-return calls.
func Explore(from *ssa.BasicBlock, after ssa.Instruction, init PState, nr NoReturn, visit func(in ssa.Instruction, st PState) bool) {
	ExploreX(from, after, init, nr, nil, nil, visit)
}

// ExploreX is Explore with cut edges (never taken) and assumed constants.
func ExploreX(from *ssa.BasicBlock, after ssa.Instruction, init PState, nr NoReturn, cutEdges map[Edge]bool, assume func(v ssa.Value) (*ssa.Const, bool), visit func(in ssa.Instruction, st PState) bool) {
	old := assumeHook
	assumeHook = assume
	defer func() { assumeHook = old }()
	type item struct {
		b   *ssa.BasicBlock
		idx int
		st  PState
	}
	seen := map[string]bool{}
	start := 0
	if after != nil {
		from = after.Block()
		start = InstrIndex(after) + 1
	}
	if init == nil {
		init = PState{}
	}
	work := []item{{from, start, init}}
	steps := 0
	for len(work) > 0 {
		it := work[len(work)-1]
		work = work[:len(work)-1]
		it.st = it.st.clone()
		k := fmt.Sprintf("%d/%d/%s", it.b.Index, it.idx, it.st.key())
		if seen[k] {
			continue
		}
		seen[k] = true
		steps++
		if steps > 200000 {
			ExploreOverflow = true
			return
		}
		if it.idx == 0 {
			enterBlock(it.st, it.b)
		}
		stop := false
		for i := it.idx; i < len(it.b.Instrs); i++ {
			in := it.b.Instrs[i]
			if _, isPhi := in.(*ssa.Phi); isPhi {
				continue
			}
			if stv, ok := in.(*ssa.Store); ok {
				// address-taken locals (captured by closures) live in Alloc cells
				if al, ok := stv.Addr.(*ssa.Alloc); ok {
					if c, ok := EvalConst(stv.Val, it.st); ok {
						it.st[al] = c
					} else {
						it.st[al] = stv.Val
					}
				}
			}
			if !visit(in, it.st) {
				stop = true
				break
			}
			if nr != nil && nr(in) {
				stop = true
				break
			}
		}
		if stop {
			continue
		}
		for _, sc := range stepSuccs(it.b, it.st) {
			if cutEdges != nil && cutEdges[Edge{it.b, sc.Idx}] {
				continue
			}
			if dynCutHook != nil && dynCutHook(it.b, sc.Idx, it.st) {
				continue
			}
			if exploreOnly != nil && !exploreOnly[sc.To] {
				continue
			}
			work = append(work, item{sc.To, 0, sc.St})
		}
	}
}

// Resolve returns the value a load of a tracked local cell yields on this path (or v itself).
func Resolve(v ssa.Value, st PState) ssa.Value {
	if u, ok := v.(*ssa.UnOp); ok && u.Op == token.MUL {
		if al, ok := u.X.(*ssa.Alloc); ok {
			if sv, ok := st[al]; ok {
				return sv
			}
		}
	}
	return v
}

// learn records what taking one side of a branch says about the values the condition tests: the condition
// itself (so that the same flag tested again goes the same way) and nil-ness of the tested value.
func learn(st PState, cond ssa.Value, taken bool, before PState) {
	mk := func(b bool, t types.Type) *ssa.Const { return ssa.NewConst(constant.MakeBool(b), t) }
	for i := 0; i < 4; i++ {
		if u, ok := cond.(*ssa.UnOp); ok && u.Op == token.NOT {
			cond, taken = u.X, !taken
			continue
		}
		break
	}
	b := Base(cond, before)
	if _, isC := b.(*ssa.Const); !isC && testedAgain(b) {
		st[b] = mk(taken, b.Type())
	}
	if bo, ok := b.(*ssa.BinOp); ok && (bo.Op == token.EQL || bo.Op == token.NEQ) {
		var other ssa.Value
		if IsNilConst(bo.Y) {
			other = bo.X
		} else if IsNilConst(bo.X) {
			other = bo.Y
		}
		if other != nil {
			ob := Base(other, before)
			if _, isC := ob.(*ssa.Const); isC {
				return
			}
			if !testedAgain(ob) {
				return
			}
			isNil := taken == (bo.Op == token.EQL)
			if isNil {
				st[ob] = ssa.NewConst(nil, ob.Type())
			} else {
				st[nonNil{ob}] = mk(true, types.Typ[types.Bool])
			}
		}
	}
}

// enterBlock: values defined in this block are new on every entry; forget what an earlier pass through the
// block learnt about them.
func enterBlock(st PState, b *ssa.BasicBlock) {
	for _, in := range b.Instrs {
		if _, isPhi := in.(*ssa.Phi); isPhi {
			continue
		}
		if v, ok := in.(ssa.Value); ok {
			if _, isAl := v.(*ssa.Alloc); isAl {
				continue
			}
			delete(st, v)
			delete(st, nonNil{v})
		}
	}
}

// succState is one feasible way of leaving a block: the successor, its index in Succs, and the state there
// (branch facts learnt, φ-nodes of the successor bound for this edge).
type succState struct {
	To  *ssa.BasicBlock
	Idx int
	St  PState
}

// stepSuccs lists the feasible successors of b under st.
func stepSuccs(b *ssa.BasicBlock, st PState) []succState {
	idxs := []int{}
	for i := range b.Succs {
		idxs = append(idxs, i)
	}
	var branchOn ssa.Value
	if ifi, ok := lastInstr(b).(*ssa.If); ok && len(b.Succs) == 2 {
		if c, ok := EvalConst(ifi.Cond, st); ok && c.Value != nil && c.Value.Kind() == constant.Bool {
			if constant.BoolVal(c.Value) {
				idxs = []int{0}
			} else {
				idxs = []int{1}
			}
		} else {
			branchOn = ifi.Cond
		}
	}
	var out []succState
	for _, si := range idxs {
		s := b.Succs[si]
		predIdx := -1
		for i, p := range s.Preds {
			if p == b {
				// a block may be the same predecessor twice (both arms of an If): the i-th occurrence
				// belongs to the i-th successor slot that targets s
				n := 0
				for k := 0; k < si; k++ {
					if b.Succs[k] == s {
						n++
					}
				}
				m := 0
				for k := 0; k < i; k++ {
					if s.Preds[k] == b {
						m++
					}
				}
				if m == n {
					predIdx = i
					break
				}
			}
		}
		ns := st.clone()
		if branchOn != nil {
			learn(ns, branchOn, si == 0, st)
		}
		for _, in := range s.Instrs {
			ph, ok := in.(*ssa.Phi)
			if !ok {
				break
			}
			if predIdx >= 0 && predIdx < len(ph.Edges) {
				if c, ok := EvalConst(ph.Edges[predIdx], st); ok {
					ns[ph] = c
				} else if bv := Base(ph.Edges[predIdx], st); bv != ssa.Value(ph) {
					ns[ph] = bv
				} else {
					delete(ns, ph)
				}
			}
		}
		out = append(out, succState{s, si, ns})
	}
	return out
}

// dynCutHook, when set (by Guarded), says whether leaving block b through successor idx is a justified edge
// under the state of this path.
var dynCutHook func(b *ssa.BasicBlock, idx int, st PState) bool

// ResolveCond rebuilds a condition with the φ-nodes among its operands replaced by the values they stand for on
// this path (shallow copies of the instructions, only for matching; the program is not changed). It returns v
// itself when nothing is bound.
func ResolveCond(v ssa.Value, st PState, depth int) ssa.Value {
	if v == nil || depth > 4 {
		return v
	}
	switch x := v.(type) {
	case *ssa.Phi:
		if b := Base(x, st); b != ssa.Value(x) {
			return ResolveCond(b, st, depth+1)
		}
	case *ssa.UnOp:
		if b := Base(x, st); b != ssa.Value(x) {
			return ResolveCond(b, st, depth+1)
		}
		if nx := ResolveCond(x.X, st, depth+1); nx != x.X {
			cp := *x
			cp.X = nx
			return &cp
		}
	case *ssa.BinOp:
		nx, ny := ResolveCond(x.X, st, depth+1), ResolveCond(x.Y, st, depth+1)
		if nx != x.X || ny != x.Y {
			cp := *x
			cp.X, cp.Y = nx, ny
			return &cp
		}
	case *ssa.Call:
		changed := false
		args := make([]ssa.Value, len(x.Call.Args))
		for i, a := range x.Call.Args {
			args[i] = ResolveCond(a, st, depth+1)
			if args[i] != a {
				changed = true
			}
		}
		if changed {
			cp := *x
			cp.Call.Args = args
			return &cp
		}
	case *ssa.Convert:
		if nx := ResolveCond(x.X, st, depth+1); nx != x.X {
			cp := *x
			cp.X = nx
			return &cp
		}
	case *ssa.ChangeType:
		if nx := ResolveCond(x.X, st, depth+1); nx != x.X {
			cp := *x
			cp.X = nx
			return &cp
		}
	case *ssa.MakeInterface:
		if nx := ResolveCond(x.X, st, depth+1); nx != x.X {
			cp := *x
			cp.X = nx
			return &cp
		}
	case *ssa.Field:
		if nx := ResolveCond(x.X, st, depth+1); nx != x.X {
			cp := *x
			cp.X = nx
			return &cp
		}
	case *ssa.FieldAddr:
		if nx := ResolveCond(x.X, st, depth+1); nx != x.X {
			cp := *x
			cp.X = nx
			return &cp
		}
	}
	return v
}

// exploreOnly, when set (by the reachability queries), restricts an exploration to the blocks from which the
// target can still be reached; leaving that set cannot lead to the target.
var exploreOnly map[*ssa.BasicBlock]bool

// canReach returns the blocks from which block `to` is reachable in the block graph.
func canReach(to *ssa.BasicBlock) map[*ssa.BasicBlock]bool {
	out := map[*ssa.BasicBlock]bool{to: true}
	work := []*ssa.BasicBlock{to}
	for len(work) > 0 {
		b := work[len(work)-1]
		work = work[:len(work)-1]
		for _, p := range b.Preds {
			if !out[p] {
				out[p] = true
				work = append(work, p)
			}
		}
	}
	return out
}

// testedAgain: is it worth remembering what a branch said about v? Only if v takes part in another test or
// flows into a φ (through which a later test may see it); a fact nobody can use would only keep otherwise
// equal states apart.
func testedAgain(v ssa.Value) bool { return testUses(v, 0) >= 2 }

// testUses counts the tests, φ-nodes and local cells v flows into; a negation counts for what it flows into
// (`c := !flag; if c { c = f() }; if c {…}`: the flag is tested once and merged once, both through the negation).
func testUses(v ssa.Value, depth int) int {
	refs := v.Referrers()
	if refs == nil {
		return 0
	}
	n := 0
	for _, r := range *refs {
		switch x := r.(type) {
		case *ssa.If, *ssa.Phi:
			n++
		case *ssa.BinOp:
			if x.Op == token.EQL || x.Op == token.NEQ {
				n++
			}
		case *ssa.UnOp:
			if x.Op == token.NOT {
				if k := testUses(x, depth+1); depth < 3 && k > 1 {
					n += k
				} else {
					n++
				}
			}
		case *ssa.Store:
			if _, isAl := x.Addr.(*ssa.Alloc); isAl {
				n++
			}
		}
	}
	return n
}

// NeverNil: v is, by construction, not nil — a fresh allocation, an interface made from one, or the result of a
// function all of whose returns are such values (errors.New, fmt.Errorf, the repository's error constructors).
func NeverNil(v ssa.Value) bool { return neverNilDepth(v, 0) }

var neverNilFn = map[*ssa.Function]int{} // 1 yes, 2 no, 3 in progress

func neverNilDepth(v ssa.Value, depth int) bool {
	if depth > 6 {
		return false
	}
	switch x := v.(type) {
	case *ssa.Alloc, *ssa.MakeClosure, *ssa.MakeMap, *ssa.MakeChan, *ssa.MakeSlice, *ssa.Function:
		return true
	case *ssa.MakeInterface:
		if _, isPtr := x.X.Type().Underlying().(*types.Pointer); isPtr {
			return neverNilDepth(x.X, depth+1)
		}
		switch x.X.Type().Underlying().(type) {
		case *types.Basic, *types.Struct, *types.Array:
			return true // a non-pointer value in an interface is never the nil interface
		}
		return neverNilDepth(x.X, depth+1)
	case *ssa.ChangeType:
		return neverNilDepth(x.X, depth+1)
	case *ssa.ChangeInterface:
		return neverNilDepth(x.X, depth+1)
	case *ssa.Phi:
		for _, e := range x.Edges {
			if e == ssa.Value(x) {
				continue
			}
			if !neverNilDepth(e, depth+1) {
				return false
			}
		}
		return len(x.Edges) > 0
	case *ssa.Extract:
		if call, ok := x.Tuple.(*ssa.Call); ok {
			return fnNeverNil(call.Call.StaticCallee(), x.Index, depth)
		}
	case *ssa.Call:
		return fnNeverNil(x.Call.StaticCallee(), 0, depth)
	case *ssa.FieldAddr, *ssa.IndexAddr:
		return true
	}
	return false
}

func fnNeverNil(fn *ssa.Function, idx int, depth int) bool {
	if fn == nil || fn.Blocks == nil || idx != 0 && fn.Signature.Results().Len() <= idx {
		return false
	}
	if idx == 0 {
		switch neverNilFn[fn] {
		case 1:
			return true
		case 2, 3:
			return false
		}
		neverNilFn[fn] = 3
	}
	ok := true
	n := 0
	for _, b := range fn.Blocks {
		r, isRet := lastInstr(b).(*ssa.Return)
		if !isRet {
			continue
		}
		n++
		if idx >= len(r.Results) || !neverNilDepth(r.Results[idx], depth+1) {
			ok = false
		}
	}
	ok = ok && n > 0 && fn.Recover == nil
	if idx == 0 {
		switch {
		case ok:
			neverNilFn[fn] = 1
		case depth == 0:
			neverNilFn[fn] = 2 // a complete evaluation said no
		default:
			// a negative answer reached inside another evaluation may be due to the depth bound or to a cycle
			// through a function still in progress: do not remember it
			delete(neverNilFn, fn)
		}
	}
	return ok
}
