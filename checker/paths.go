package main

import (
	"fmt"
	"go/constant"
	"go/token"
	"sort"
	"strings"

	"golang.org/x/tools/go/ssa"
)

// Forward exploration of feasible paths with constant tracking of φ-nodes (and, optionally,
// parameters bound to constants). This is the small amount of path sensitivity the rules
// need for flags such as `complete`, `rangeRequestOk`, `fromByte = 0; hash = nil`.

// PState maps φ-nodes/parameters to known constants and local cells (Alloc) to the value last stored.
type PState map[ssa.Value]ssa.Value

func (s PState) clone() PState {
	n := PState{}
	for k, v := range s {
		n[k] = v
	}
	return n
}

func (s PState) key() string {
	var parts []string
	for k, v := range s {
		if c, ok := v.(*ssa.Const); ok {
			parts = append(parts, k.Name()+"="+c.String())
		} else {
			parts = append(parts, k.Name()+"=@"+v.Name())
		}
	}
	sort.Strings(parts)
	return strings.Join(parts, ";")
}

// assumeHook, when set (single-threaded use by ExploreX), supplies assumed constants for values.
var assumeHook func(v ssa.Value) (*ssa.Const, bool)

// EvalConst evaluates v to a constant under the state, if it can.
func EvalConst(v ssa.Value, st PState) (*ssa.Const, bool) {
	if assumeHook != nil {
		if c, ok := assumeHook(v); ok {
			return c, true
		}
	}
	switch x := v.(type) {
	case *ssa.Const:
		return x, true
	case *ssa.Phi, *ssa.Parameter:
		if c, ok := st[v].(*ssa.Const); ok {
			return c, true
		}
		return nil, false
	case *ssa.Convert:
		return EvalConst(x.X, st)
	case *ssa.ChangeType:
		return EvalConst(x.X, st)
	case *ssa.UnOp:
		if x.Op == token.MUL {
			if al, ok := x.X.(*ssa.Alloc); ok {
				if sv, ok := st[al]; ok {
					if c, ok := sv.(*ssa.Const); ok {
						return c, true
					}
					return EvalConst(sv, st)
				}
			}
			return nil, false
		}
		if x.Op == token.NOT {
			if c, ok := EvalConst(x.X, st); ok && c.Value != nil && c.Value.Kind() == constant.Bool {
				return ssa.NewConst(constant.MakeBool(!constant.BoolVal(c.Value)), x.Type()), true
			}
		}
		return nil, false
	case *ssa.BinOp:
		a, ok1 := EvalConst(x.X, st)
		b, ok2 := EvalConst(x.Y, st)
		switch x.Op {
		case token.EQL, token.NEQ, token.LSS, token.LEQ, token.GTR, token.GEQ:
			if ok1 && ok2 {
				if a.Value == nil || b.Value == nil {
					// nil comparisons: only nil == nil is decidable
					if a.Value == nil && b.Value == nil && (x.Op == token.EQL || x.Op == token.NEQ) {
						return ssa.NewConst(constant.MakeBool(x.Op == token.EQL), x.Type()), true
					}
					return nil, false
				}
				if a.Value.Kind() == b.Value.Kind() || (a.Value.Kind() != constant.String && b.Value.Kind() != constant.String && a.Value.Kind() != constant.Bool && b.Value.Kind() != constant.Bool) {
					return ssa.NewConst(constant.MakeBool(constant.Compare(a.Value, x.Op, b.Value)), x.Type()), true
				}
			}
		}
		return nil, false
	}
	return nil, false
}

// Explore walks all feasible paths starting right after instruction `after` (or at the start
// of block `from` when after is nil). visit is called for every instruction reached with the
// state on that path; returning false stops that path. Paths end at returns, panics and
// no-return calls.
func Explore(from *ssa.BasicBlock, after ssa.Instruction, init PState, nr NoReturn, visit func(in ssa.Instruction, st PState) bool) {
	ExploreX(from, after, init, nr, nil, nil, visit)
}

// ExploreX is Explore with cut edges (never taken) and assumed constants.
func ExploreX(from *ssa.BasicBlock, after ssa.Instruction, init PState, nr NoReturn, cutEdges map[Edge]bool, assume func(v ssa.Value) (*ssa.Const, bool), visit func(in ssa.Instruction, st PState) bool) {
	old := assumeHook
	assumeHook = assume
	defer func() { assumeHook = old }()
	type item struct {
		b   *ssa.BasicBlock
		idx int
		st  PState
	}
	seen := map[string]bool{}
	start := 0
	if after != nil {
		from = after.Block()
		start = InstrIndex(after) + 1
	}
	if init == nil {
		init = PState{}
	}
	work := []item{{from, start, init}}
	steps := 0
	for len(work) > 0 {
		it := work[len(work)-1]
		work = work[:len(work)-1]
		it.st = it.st.clone()
		k := fmt.Sprintf("%d/%d/%s", it.b.Index, it.idx, it.st.key())
		if seen[k] {
			continue
		}
		seen[k] = true
		steps++
		if steps > 20000 {
			return
		}
		stop := false
		for i := it.idx; i < len(it.b.Instrs); i++ {
			in := it.b.Instrs[i]
			if _, isPhi := in.(*ssa.Phi); isPhi {
				continue
			}
			if stv, ok := in.(*ssa.Store); ok {
				// address-taken locals (captured by closures) live in Alloc cells
				if al, ok := stv.Addr.(*ssa.Alloc); ok {
					if c, ok := EvalConst(stv.Val, it.st); ok {
						it.st[al] = c
					} else {
						it.st[al] = stv.Val
					}
				}
			}
			if !visit(in, it.st) {
				stop = true
				break
			}
			if nr != nil && nr(in) {
				stop = true
				break
			}
		}
		if stop {
			continue
		}
		succs := it.b.Succs
		if ifi, ok := lastInstr(it.b).(*ssa.If); ok {
			if c, ok := EvalConst(ifi.Cond, it.st); ok && c.Value != nil && c.Value.Kind() == constant.Bool {
				if constant.BoolVal(c.Value) {
					succs = succs[:1]
				} else {
					succs = succs[1:2]
				}
			}
		}
		for _, s := range succs {
			if cutEdges != nil {
				isCut := false
				for i, x := range it.b.Succs {
					if x == s && cutEdges[Edge{it.b, i}] {
						isCut = true
					}
				}
				if isCut {
					continue
				}
			}
			// evaluate φ-nodes of s simultaneously for the edge it.b -> s
			predIdx := -1
			for i, p := range s.Preds {
				if p == it.b {
					predIdx = i
				}
			}
			ns := it.st.clone()
			for _, in := range s.Instrs {
				ph, ok := in.(*ssa.Phi)
				if !ok {
					break
				}
				if predIdx >= 0 && predIdx < len(ph.Edges) {
					if c, ok := EvalConst(ph.Edges[predIdx], it.st); ok {
						ns[ph] = c
					} else {
						delete(ns, ph)
					}
				}
			}
			work = append(work, item{s, 0, ns})
		}
	}
}

// Resolve returns the value a load of a tracked local cell yields on this path (or v itself).
func Resolve(v ssa.Value, st PState) ssa.Value {
	if u, ok := v.(*ssa.UnOp); ok && u.Op == token.MUL {
		if al, ok := u.X.(*ssa.Alloc); ok {
			if sv, ok := st[al]; ok {
				return sv
			}
		}
	}
	return v
}
