package main

import (
	"fmt"
	"go/token"
	"go/types"
	"regexp"
	"sort"
	"strings"

	"golang.org/x/tools/go/ssa"
)

// C05 — prune never deletes an object that is still needed or not yet pushed.

func init() {
	register(&PropDef{
		ID:    "C05",
		Level: "other",
		Explanation: "Decides structural necessary conditions on the current source of `git lfs prune`: (R1) deletion is reachable only with --dry-run off and only through the one deleting function; (R2) an object becomes prunable only through the negative retained-set lookup of that same object; (R3) every retention source is started, counted in the wait group exactly as often as goroutines are started (also for sub-tasks), signs off exactly once, and the join/close/join/check sequence precedes the prunable computation; retention tasks are skipped only under their documented flags and each ref's retention window is measured from that ref's own tip; " +
			"(R4) every error of a retention scan is reported to the error collector, which makes prune exit; (R5) the git log invocations whose patch output is parsed carry the flags that make the output independent of user configuration and attributes, and the stash scan uses the full <stash>^..<stash> range; (R6) with remote verification an object stays prunable only if verified, or unreachable when unreachable objects are not verified. Whether git's revision ranges select exactly the right commits over all histories, and the date arithmetic, are not decided.",
		Assumptions: []string{
			"git log/rev-list/ls-files behave as documented for the pinned flags (checked with git 2.39 during design)",
			"sync.WaitGroup / channel semantics",
		},
		Run:      runC05,
		Canaries: c05Canaries,
	})
}

func isWaitGroupCall(in ssa.Instruction, method string) (recv ssa.Value, arg ssa.Value, ok bool) {
	cc := AsCall(in)
	if cc == nil || CalleeName(cc) != "(*sync.WaitGroup)."+method {
		return nil, nil, false
	}
	recv = cc.Args[0]
	if len(cc.Args) > 1 {
		arg = cc.Args[1]
	}
	return recv, arg, true
}

func goPassesValue(g *ssa.Go, v ssa.Value) bool {
	for _, a := range g.Call.Args {
		if a == v {
			return true
		}
	}
	return false
}

func runC05(c *Ctx) {
	p := c.P
	prune := p.Fn("commands", "prune")
	del := p.Fn("commands", "pruneDeleteFiles")
	if prune == nil || del == nil {
		c.Missing("R1", "commands.prune / commands.pruneDeleteFiles", "not found")
		return
	}
	// ---- R1 ------------------------------------------------------------------------------------
	var dry *ssa.Parameter
	for _, prm := range prune.Params {
		if prm.Name() == "dryRun" {
			dry = prm
		}
	}
	callers := 0
	for _, fn := range p.RepoFuncs(productPkg) {
		for _, ci := range CallsIn(fn, "commands.pruneDeleteFiles") {
			callers++
			if fn != prune {
				c.Bad("R1", "delete-caller:"+FnName(fn), p.InstrPos(ci), "objects are deleted from a function other than prune")
				continue
			}
			pass := PassEdges(prune, func(cond ssa.Value) (bool, bool) {
				if dry != nil && cond == ssa.Value(dry) {
					return false, true
				}
				return false, false
			})
			g, path := Guarded(prune.Blocks[0], ci, pass, noReturnCommands)
			c.Check(g && nonVacuous(pass), "R1", "delete-gated-by-dry-run", p.InstrPos(ci), "objects are deleted only when --dry-run is off", "objects can be deleted although --dry-run was given: "+path)
			// the list deleted is the prunable list
		}
	}
	c.AtLeast("R1", "callers of pruneDeleteFiles", callers, 1)
	// the --dry-run flag of the calling command is what arrives in prune's dryRun parameter (the last three
	// parameters are all bool: a transposed argument list still compiles)
	isDryFlag := func(v ssa.Value) bool {
		u, ok := Unwrap(v).(*ssa.UnOp)
		if !ok {
			return false
		}
		g, ok := u.X.(*ssa.Global)
		return ok && strings.HasSuffix(g.Name(), "DryRunArg")
	}
	pruneCalls := 0
	for _, fn := range p.RepoFuncs(productPkg) {
		for _, ci := range CallsIn(fn, "commands.prune") {
			pruneCalls++
			readsFlag := false
			for _, b := range fn.Blocks {
				for _, in := range b.Instrs {
					if v, ok := in.(ssa.Value); ok && isDryFlag(v) {
						readsFlag = true
					}
				}
			}
			args := ci.Common().Args
			good, why := true, ""
			for i, prm := range prune.Params {
				if i >= len(args) {
					break
				}
				fromFlag := false
				for _, l := range append(p.LeavesNoFields(args[i], nil), args[i]) {
					if isDryFlag(l) {
						fromFlag = true
					}
				}
				switch {
				case prm == dry && readsFlag && !fromFlag:
					good, why = false, "the command has a --dry-run flag but prune's dryRun parameter does not receive it"
				case prm != dry && prm.Name() != "verbose" && fromFlag:
					good, why = false, "the --dry-run flag is passed as prune's "+prm.Name()+" parameter"
				}
			}
			c.Check(good, "R1", "dry-run-flag-reaches-prune:"+FnName(fn), p.InstrPos(ci), "the command's --dry-run flag is prune's dryRun argument", FnName(fn)+" calls prune with its --dry-run flag in the wrong position ("+why+"): a dry run deletes objects")
		}
	}
	c.AtLeast("R1", "callers of prune", pruneCalls, 2)
	retentionScansUnfiltered(c, "R3")
	treeListingsCoverWholeTree(c, "R5")
	unpushedIncludesHead(c, "R5")
	indexKeepsEveryPath(c, "R3")
	gitDateHasNumericZone(c, "R5")
	worktreeRecordKeepsPath(c, "R3")
	recentRefsCoverAllRefs(c, "R3")
	checkoutRetentionOnlyForce(c, "R3")
	noFetchIncludeIn(c, "R3", "prune retains what the checkout and recent refs need on every path except those under lfs.fetchexclude", "prune", "pruneCommand")
	// removals inside pruneDeleteFiles target ObjectPath(oid) of the listed oids
	for _, ci := range CallsIn(del, "os.Remove", "os.RemoveAll") {
		okp := false
		if oc, _, isRes := CallResult(ci.Common().Args[0]); isRes && CalleeName(oc.Common()) == "(*fs.Filesystem).ObjectPath" {
			for _, l := range p.LeavesNoFields(oc.Call.Args[1], nil) {
				if l == ssa.Value(del.Params[0]) {
					okp = true
				}
			}
		}
		if ResultOfCallNamed(ci.Common().Args[0], "(*fs.Filesystem).ObjectPath") {
			okp = true
		}
		c.Check(okp, "R1", "delete-target", p.InstrPos(ci), "removes the object path of a listed oid", "pruneDeleteFiles removes something other than the object path of a listed oid")
	}

	// ---- R2 ------------------------------------------------------------------------------------
	loops := Loops(prune)
	nApp := 0
	for _, b := range prune.Blocks {
		for _, in := range b.Instrs {
			if !isAppendOf(in, "string") {
				continue
			}
			call := in.(*ssa.Call)
			els := variadicElems(call.Call.Args[1])
			if len(els) != 1 {
				continue
			}
			_, f, base, isF := FieldOf(els[0])
			if !isF || f != "Oid" {
				continue
			}
			l := LoopOf(loops, b)
			if l == nil {
				continue
			}
			nApp++
			pass := PassEdges(prune, func(cond ssa.Value) (bool, bool) {
				cc, ok := cond.(*ssa.Call)
				if !ok || CalleeName(&cc.Call) != "(tools.StringSet).Contains" {
					return false, false
				}
				_, f2, base2, ok2 := FieldOf(cc.Call.Args[1])
				if ok2 && f2 == "Oid" && SameVar(base, base2) {
					return false, true
				}
				return false, false
			})
			g, path := Guarded(l.Body, in, pass, nil)
			c.Check(g && nonVacuous(pass), "R2", "prunable-only-if-not-retained", p.InstrPos(in), "an object is listed for pruning only when the retained set does not contain it", "an object can be listed for pruning without the retained-set lookup of that object having been negative: "+path)
		}
	}
	c.AtLeast("R2", "prunable appends", nApp, 1)

	c05Tasks(c, prune)
	c05Errors(c)
	c05LogArgs(c)
	c05Verify(c, prune)
	c05VerifyNeedsAction(c)
	c05IndexOfWorktree(c)
	scannerVerdictRule(c, "R7")
}

// ResultOfCallNamed: v is (through a local cell) the result of a call to the named callee.
func ResultOfCallNamed(v ssa.Value, name string) bool {
	v = Unwrap(v)
	if cc, _, ok := CallResult(v); ok && CalleeName(cc.Common()) == name {
		return true
	}
	defs := ReachingDefs(v)
	if len(defs) == 0 {
		return false
	}
	for _, d := range defs {
		if cc, _, ok := CallResult(d); !ok || CalleeName(cc.Common()) != name {
			return false
		}
	}
	return true
}

func immediateGuard(b *ssa.BasicBlock) ssa.Value {
	// the condition of the nearest dominating If that actually decides whether b runs
	for d := b.Idom(); d != nil; d = d.Idom() {
		if ifi, ok := lastInstr(d).(*ssa.If); ok {
			// b reachable from exactly one successor without passing the other?
			be := backEdges(b.Parent())
			r0 := reachVia(d, 0, be)
			r1 := reachVia(d, 1, be)
			if r0[b] != r1[b] {
				c, _ := stripNot(ifi.Cond)
				return c
			}
		}
	}
	return nil
}

func c05Tasks(c *Ctx, prune *ssa.Function) {
	p := c.P
	// the wait group of the retention tasks: the one whose Wait is followed by close of a chan string
	var taskwait ssa.Value
	var waitInstr ssa.Instruction
	for _, b := range prune.Blocks {
		for i, in := range b.Instrs {
			recv, _, ok := isWaitGroupCall(in, "Wait")
			if !ok {
				continue
			}
			// next close in the same block closes a chan string?
			for _, nx := range b.Instrs[i+1:] {
				if cc := AsCall(nx); cc != nil {
					if bi, ok := cc.Value.(*ssa.Builtin); ok && bi.Name() == "close" && chanElemName(cc.Args[0].Type()) == "string" {
						taskwait = recv
						waitInstr = in
					}
					break
				}
			}
		}
	}
	if taskwait == nil {
		c.Missing("R3", "task wait group", "cannot find taskwait.Wait() followed by close(retainChan)")
		return
	}
	// (a) Adds vs goroutines, grouped by guard
	adds := map[ssa.Value]int64{}
	gos := map[ssa.Value]int{}
	var tasks []*ssa.Function
	for _, b := range prune.Blocks {
		for _, in := range b.Instrs {
			if recv, arg, ok := isWaitGroupCall(in, "Add"); ok && recv == taskwait {
				k, isK := ConstInt(arg)
				if !isK {
					c.Undecided("R3", "taskwait.Add:non-constant", p.InstrPos(in), "wait group raised by a non-constant")
					continue
				}
				adds[immediateGuard(b)] += k
			}
			if g, ok := in.(*ssa.Go); ok && goPassesValue(g, taskwait) {
				gos[immediateGuard(b)]++
				if f := g.Call.StaticCallee(); f != nil {
					tasks = append(tasks, f)
				}
			}
		}
	}
	keys := map[ssa.Value]bool{}
	for k := range adds {
		keys[k] = true
	}
	for k := range gos {
		keys[k] = true
	}
	for k := range keys {
		name := "unconditional"
		if k != nil {
			name = "under:" + describeCond(k)
		}
		c.Check(int(adds[k]) == gos[k], "R3", "taskwait-count:"+name, p.InstrPos(waitInstr), fmt.Sprintf("wait group raised by %d for %d goroutines", adds[k], gos[k]),
			fmt.Sprintf("the task wait group is raised by %d but %d task goroutines are started (%s): either prune computes the prunable set before a retention task finished, or it hangs", adds[k], gos[k], name))
	}
	c.AtLeast("R3", "retention task goroutines", len(tasks), 5)

	// (b),(c) each task (and sub-task) signs off exactly once via defer at entry; sub-tasks are counted before they start
	seen := map[*ssa.Function]bool{}
	var all []*ssa.Function
	work := append([]*ssa.Function{}, tasks...)
	for len(work) > 0 {
		f := work[len(work)-1]
		work = work[:len(work)-1]
		if seen[f] || f.Blocks == nil {
			continue
		}
		seen[f] = true
		all = append(all, f)
		for _, b := range f.Blocks {
			for _, in := range b.Instrs {
				if g, ok := in.(*ssa.Go); ok {
					if sf := g.Call.StaticCallee(); sf != nil {
						work = append(work, sf)
					}
				}
			}
		}
	}
	sort.Slice(all, func(i, j int) bool { return FnName(all[i]) < FnName(all[j]) })
	scans := map[string]bool{}
	for _, f := range all {
		var wg *ssa.Parameter
		for _, prm := range f.Params {
			if short(prm.Type().String()) == "*sync.WaitGroup" {
				wg = prm
			}
		}
		if wg == nil {
			c.Bad("R3", "task-has-waitgroup:"+FnName(f), p.Pos(f.Pos()), "a retention task does not receive the wait group")
			continue
		}
		deferAtEntry, otherDone := 0, 0
		for _, b := range f.Blocks {
			for _, in := range b.Instrs {
				recv, _, ok := isWaitGroupCall(in, "Done")
				if !ok || recv != ssa.Value(wg) {
					continue
				}
				if _, isDefer := in.(*ssa.Defer); isDefer && b == f.Blocks[0] {
					deferAtEntry++
				} else {
					otherDone++
				}
			}
		}
		// a deferred Done after a blocking acquire in the entry block is still "at entry"
		c.Check(deferAtEntry == 1 && otherDone == 0, "R3", "task-signs-off-once:"+FnName(f), p.Pos(f.Pos()), "defer waitg.Done() once at entry", fmt.Sprintf("the task signs off %d time(s) by defer at entry and %d time(s) elsewhere (exactly one deferred Done at entry required): prune would proceed early or hang", deferAtEntry, otherDone))
		// sub-tasks
		for _, b := range f.Blocks {
			nAdd, nGo := int64(0), 0
			var firstGo ssa.Instruction
			for _, in := range b.Instrs {
				if recv, arg, ok := isWaitGroupCall(in, "Add"); ok && recv == ssa.Value(wg) {
					if k, isK := ConstInt(arg); isK {
						if firstGo != nil && nGo >= int(nAdd)+int(k) {
							// Add after go
						}
						nAdd += k
					}
				}
				if g, ok := in.(*ssa.Go); ok && goPassesValue(g, wg) {
					nGo++
					if int64(nGo) > nAdd {
						c.Bad("R3", "subtask-counted-before-start:"+FnName(f), p.InstrPos(in), "a sub-task goroutine is started before the wait group was raised for it")
					}
					firstGo = in
				}
			}
			if nGo > 0 || nAdd > 0 {
				c.Check(int64(nGo) == nAdd, "R3", fmt.Sprintf("subtask-count:%s:b%d", FnName(f), b.Index), p.InstrPos(firstPositioned(b)), "one Add(1) per sub-task goroutine", fmt.Sprintf("wait group raised by %d for %d sub-task goroutines in one block", nAdd, nGo))
			}
		}
		for _, ff := range WithAnon(f) {
			for _, b := range ff.Blocks {
				for _, in := range b.Instrs {
					if cc := AsCall(in); cc != nil && strings.HasPrefix(CalleeName(cc), "(*lfs.GitScanner).Scan") {
						scans[strings.TrimPrefix(CalleeName(cc), "(*lfs.GitScanner).")] = true
					}
				}
			}
		}
	}
	for _, want := range []string{"ScanTree", "ScanPreviousVersions", "ScanUnpushed", "ScanStashed", "ScanIndex"} {
		c.Check(scans[want], "R3", "retention-source:"+want, p.Pos(prune.Pos()), "retention source is consulted by a task", "no retention task calls GitScanner."+want+": objects referenced only through that source would be pruned")
	}
	// (d) ordering in prune
	var seq []string
	for _, b := range prune.DomPreorder() {
		for _, in := range b.Instrs {
			if recv, _, ok := isWaitGroupCall(in, "Wait"); ok {
				if recv == taskwait {
					seq = append(seq, "taskwait.Wait")
				} else {
					seq = append(seq, "otherwait.Wait")
				}
			}
			if cc := AsCall(in); cc != nil {
				if bi, ok := cc.Value.(*ssa.Builtin); ok && bi.Name() == "close" {
					seq = append(seq, "close(chan "+chanElemName(cc.Args[0].Type())+")")
				}
				switch CalleeName(cc) {
				case "commands.pruneCheckErrors":
					seq = append(seq, "checkErrors")
				case "(tools.StringSet).Contains":
					if len(seq) == 0 || seq[len(seq)-1] != "retained.Contains" {
						seq = append(seq, "retained.Contains")
					}
				}
			}
		}
	}
	joined := strings.Join(seq, " > ")
	okOrder := strings.Contains(joined, "taskwait.Wait > close(chan string) > otherwait.Wait > close(chan error) > otherwait.Wait > checkErrors") &&
		strings.Index(joined, "checkErrors") < strings.Index(joined, "retained.Contains")
	c.Check(okOrder, "R3", "join-before-prunable", p.InstrPos(waitInstr), "tasks joined, retained set complete, errors checked — before the prunable set is computed", "prune does not join the retention tasks, drain the retained/error channels and check errors before computing the prunable set: "+joined)

	// (f) skip conditions of task starts
	var allowedGuard func(cond ssa.Value) bool
	allowedGuard = func(cond ssa.Value) bool {
		switch x := cond.(type) {
		case *ssa.Phi:
			// a compound condition folded into a flag (`isNew := retain && set.Add(sha)`): every operand, and the
			// test behind every constant edge, must itself be a documented condition
			for i, e := range x.Edges {
				if _, isC := ConstBool(e); isC {
					if i >= len(x.Block().Preds) {
						return false
					}
					pif, ok := lastInstr(x.Block().Preds[i]).(*ssa.If)
					if !ok {
						return false
					}
					pc, _ := stripNot(pif.Cond)
					if pc == ssa.Value(x) || !allowedGuard(pc) {
						return false
					}
					continue
				}
				ec, _ := stripNot(e)
				if ec == ssa.Value(x) || !allowedGuard(ec) {
					return false
				}
			}
			return len(x.Edges) > 0
		case *ssa.BinOp:
			if _, f, _, ok := FieldOf(x.X); ok && nameIn(f, []string{"FetchRecentRefsDays", "FetchRecentCommitsDays"}) {
				if k, isK := ConstInt(x.Y); isK && k == 0 && (x.Op == token.GTR || x.Op == token.LEQ) {
					return true // days > 0 (run) or its negation days <= 0 (skip)
				}
			}
			if _, _, ok := IsErrNilCheck(x); ok {
				return true
			}
			return false
		case *ssa.Call:
			return CalleeName(&x.Call) == "(tools.StringSet).Add"
		case *ssa.Extract:
			return true // range-over-channel ok flag, map iteration
		default:
			if _, f, _, ok := FieldOf(cond); ok && nameIn(f, []string{"PruneForce", "PruneRecent", "Prunable"}) {
				return true
			}
		}
		return false
	}
	for _, f := range all {
		for _, b := range f.Blocks {
			for _, in := range b.Instrs {
				g, ok := in.(*ssa.Go)
				if !ok {
					continue
				}
				for d := b.Idom(); d != nil; d = d.Idom() {
					ifi, ok := lastInstr(d).(*ssa.If)
					if !ok {
						continue
					}
					be := backEdges(f)
					r0 := reachVia(d, 0, be)
					r1 := reachVia(d, 1, be)
					if r0[b] == r1[b] {
						continue
					}
					cond, _ := stripNot(ifi.Cond)
					callee := "?"
					if sf := g.Call.StaticCallee(); sf != nil {
						callee = sf.Name()
					}
					if strings.HasSuffix(d.Comment, ".loop") {
						continue // loop header condition
					}
					if IsRelayPhi(cond) {
						// repeats a decision taken earlier (result flag of an expanded helper): the conditions
						// behind it are examined where they are tested
						if extra := relayedDecision(f, ifi.Cond, r0[b], 0); extra != nil {
							for _, dc := range extra {
								c.Check(allowedGuard(dc.Cond) || IsRelayPhi(dc.Cond), "R3", "skip-condition:"+FnName(f)+"->"+callee+":"+describeCond(dc.Cond), p.InstrPos(dc.If), "documented skip condition", "a retention sub-task is started only under a condition that is not one of the documented flags ("+describeCond(dc.Cond)+"): objects it would retain can be pruned")
							}
							continue
						}
					}
					c.Check(allowedGuard(cond), "R3", "skip-condition:"+FnName(f)+"->"+callee+":"+describeCond(cond), p.InstrPos(ifi), "documented skip condition", "a retention sub-task is started only under a condition that is not one of the documented flags ("+describeCond(cond)+"): objects it would retain can be pruned")
				}
			}
		}
	}
	// the unpushed and stash scans are unconditional
	for _, name := range []string{"ScanUnpushed", "ScanStashed"} {
		for _, f := range all {
			for _, ci := range CallsIn(f, "(*lfs.GitScanner)."+name) {
				c.Check(ci.Block() == f.Blocks[0], "R3", "unconditional:"+name, p.InstrPos(ci), "always executed", name+" is executed only conditionally")
			}
		}
	}
	// (g) each ref's window is measured from its own tip
	for _, f := range all {
		for _, b := range f.Blocks {
			for _, in := range b.Instrs {
				g, ok := in.(*ssa.Go)
				if !ok || g.Call.StaticCallee() == nil || g.Call.StaticCallee().Name() != "pruneTaskGetPreviousVersionsOfRef" {
					continue
				}
				var ref, since ssa.Value
				for i, prm := range g.Call.StaticCallee().Params {
					switch short(prm.Type().String()) {
					case "string":
						ref = g.Call.Args[i]
					case "time.Time":
						since = g.Call.Args[i]
					}
				}
				good := false
				for _, l := range p.LeavesNoFields(since, func(v ssa.Value) FlowAct {
					if cc, _, ok := CallResult(v); ok && CalleeName(cc.Common()) == "git.GetCommitSummary" {
						return Stop
					}
					return Descend
				}) {
					if cc, _, ok := CallResult(l); ok && CalleeName(cc.Common()) == "git.GetCommitSummary" && SameValue(cc.Call.Args[0], ref) {
						good = true
					}
				}
				c.Check(good, "R3", "recent-window-per-ref", p.InstrPos(in), "the retention window of a ref is computed from that ref's own commit date", "the recent-commits window handed to the previous-versions scan of a ref is not computed from that same ref's commit date (e.g. HEAD's date is used for every ref): older refs lose versions that are inside their own window")
			}
		}
	}
}

func describeCond(v ssa.Value) string {
	if v == nil {
		return "-"
	}
	switch x := v.(type) {
	case *ssa.BinOp:
		return describeCond(x.X) + x.Op.String() + describeCond(x.Y)
	case *ssa.Call:
		return CalleeName(&x.Call) + "()"
	case *ssa.Const:
		if x.Value == nil {
			return "nil"
		}
		return x.Value.String()
	case *ssa.Parameter:
		return x.Name()
	case *ssa.Extract:
		return "ok#" + fmt.Sprint(x.Index)
	}
	if t, f, _, ok := FieldOf(v); ok {
		return t + "." + f
	}
	return v.Name()
}

// c05Errors (R4): retention tasks report every scan error to the error channel.
func c05Errors(c *Ctx) {
	p := c.P
	n := 0
	for _, fn := range p.RepoFuncs(func(s string) bool { return s == Mod+"/commands" }) {
		root := fn
		for root.Parent() != nil {
			root = root.Parent()
		}
		if !strings.HasPrefix(root.Name(), "pruneTaskGet") || root.Name() == "pruneTaskGetLocalObjects" {
			continue // the local-object listing is not a retention source: a failure there only shrinks the prunable set
		}
		var errCh ssa.Value
		for _, prm := range root.Params {
			if chanElemName(prm.Type()) == "error" {
				errCh = prm
			}
		}
		for _, b := range fn.Blocks {
			for _, in := range b.Instrs {
				call, ok := in.(*ssa.Call)
				if !ok {
					continue
				}
				sig := call.Call.Signature()
				if sig.Results().Len() == 0 || short(sig.Results().At(sig.Results().Len()-1).Type().String()) != "error" {
					continue
				}
				name := CalleeName(&call.Call)
				if strings.HasPrefix(name, "(*golang.org/x/sync/semaphore.Weighted)") || name == "errors.New" {
					continue
				}
				n++
				idx := sig.Results().Len() - 1
				key := fmt.Sprintf("%s:%s", FnName(root), name)
				var fails []Edge
				for _, bb := range fn.Blocks {
					ifi, ok := lastInstr(bb).(*ssa.If)
					if !ok {
						continue
					}
					cond, flip := stripNot(ifi.Cond)
					e, trueMeansNil, ok := IsErrNilCheck(cond)
					if !ok || !ResultOfCall(e, call, idx) {
						continue
					}
					failWhen := !trueMeansNil
					if flip {
						failWhen = !failWhen
					}
					if failWhen {
						fails = append(fails, Edge{bb, 0})
					} else {
						fails = append(fails, Edge{bb, 1})
					}
				}
				if len(fails) == 0 {
					c.Bad("R4", key, p.InstrPos(call), "the error of "+name+" is not tested: a failed retention scan would go unnoticed and prune would delete what the scan should have retained")
					continue
				}
				good := true
				for _, fe := range fails {
					// cut blocks that send on the error channel (or end the process); a return must then be unreachable
					cut := map[Edge]bool{}
					for _, bb := range fn.Blocks {
						reports := false
						for _, x := range bb.Instrs {
							if sd, ok := x.(*ssa.Send); ok && chanElemName(sd.Chan.Type()) == "error" {
								reports = true
							}
							if noReturnCommands(x) {
								reports = true
							}
						}
						if reports {
							for i := range bb.Succs {
								cut[Edge{bb, i}] = true
							}
						}
					}
					for rb := range ReachBlocks(fe.To(), cut, nil) {
						reports := false
						for _, x := range rb.Instrs {
							if sd, ok := x.(*ssa.Send); ok && chanElemName(sd.Chan.Type()) == "error" {
								reports = true
							}
							if noReturnCommands(x) {
								reports = true
							}
						}
						if reports {
							continue
						}
						if _, isRet := lastInstr(rb).(*ssa.Return); isRet {
							good = false
						}
						// loop back without reporting
						if l := LoopOf(Loops(fn), fe.From); l != nil && rb == l.Header {
							good = false
						}
					}
				}
				_ = errCh
				c.Check(good, "R4", key, p.InstrPos(call), "a failure is sent to the error collector (prune then exits)", "a failure of "+name+" is not reported to the error collector on every path: prune would continue with an incomplete retained set")
			}
		}
	}
	c.AtLeast("R4", "error-returning calls in retention tasks", n, 8)
	// pruneCheckErrors exits when any error was collected
	if ce := p.Fn("commands", "pruneCheckErrors"); ce != nil {
		exits := CallsIn(ce, "commands.Exit", "os.Exit", "commands.ExitWithError")
		good := len(exits) > 0
		for _, e := range exits {
			pass := PassEdges(ce, func(cond ssa.Value) (bool, bool) {
				op, x, y, ok := BinCmp(cond)
				if !ok {
					return false, false
				}
				if k, isK := ConstInt(y); isK && k == 0 {
					if lc, ok := x.(*ssa.Call); ok {
						if bi, ok := lc.Call.Value.(*ssa.Builtin); ok && bi.Name() == "len" {
							return op == token.GTR || op == token.NEQ, true
						}
					}
				}
				return false, false
			})
			_ = e
			// the exit must be reachable whenever len > 0: remove it, then the return must be unreachable from the true edge
			if len(pass) == 0 {
				good = false
				continue
			}
			cut := map[Edge]bool{}
			for i := range e.Block().Succs {
				cut[Edge{e.Block(), i}] = true
			}
			for rb := range ReachBlocks(pass[0].To(), cut, noReturnCommands) {
				if _, isRet := lastInstr(rb).(*ssa.Return); isRet && rb != e.Block() {
					good = false
				}
			}
		}
		c.Check(good, "R4", "pruneCheckErrors:exits-on-any-error", p.Pos(ce.Pos()), "prune stops when a sub-task reported an error", "pruneCheckErrors can return although errors were collected")
	} else {
		c.Missing("R4", "commands.pruneCheckErrors", "not found")
	}
	if col := p.Fn("commands", "pruneTaskCollectErrors"); col != nil {
		good := false
		for _, l := range Loops(col) {
			if l.Kind == "rangechan" {
				for b := range l.Region {
					for _, in := range b.Instrs {
						if isAppendOf(in, "error") {
							good = true
						}
					}
				}
			}
		}
		c.Check(good, "R4", "collector-keeps-every-error", p.Pos(col.Pos()), "every error received is kept", "the error collector does not append every received error")
	}
}

var stashRangeRE = regexp.MustCompile(`^%\[?1?\]?[vs]\^\.\.%\[?1?\]?[vs]$`)

// c05LogArgs (R5)
func c05LogArgs(c *Ctx) {
	p := c.P
	args, pos, ok := stringSliceGlobal(p, "lfs", "logLfsSearchArgs")
	if !ok {
		c.Missing("R5", "lfs.logLfsSearchArgs", "argument table not found as a []string literal of constants")
		return
	}
	have := map[string]bool{}
	for _, a := range args {
		have[a] = true
	}
	for _, want := range []struct{ flag, why string }{
		{"--no-ext-diff", "an external diff driver would replace the patch text"},
		{"--no-textconv", "a textconv filter would rewrite the pointer text"},
		{"--color=never", "colour escapes would break the line regexps"},
		{"--text", "a path marked -diff/binary yields 'Binary files differ' and -G skips it"},
		{"--src-prefix=a/", "diff.noprefix / diff.mnemonicPrefix change the a/ prefix the header regexp expects"},
		{"--dst-prefix=b/", "diff.noprefix / diff.mnemonicPrefix change the b/ prefix the header regexp expects"},
		{"-p", "the patch is what is parsed"},
		{"-G", "restricts to diffs touching an oid line"},
	} {
		c.Check(have[want.flag], "R5", "log-arg("+want.flag+")", p.Pos(pos), "present", "git log is run without "+want.flag+": "+want.why+", so pointers are missed and unpushed/stashed/recent objects are treated as prunable")
	}
	// context lines large enough for a whole pointer with extensions
	ctxOK := false
	for _, a := range args {
		if strings.HasPrefix(a, "-U") {
			var n int
			fmt.Sscanf(a, "-U%d", &n)
			ctxOK = n >= 12
		}
	}
	c.Check(ctxOK, "R5", "log-arg(-U>=12)", p.Pos(pos), "diff context covers a whole pointer with extensions", "the diff context is too small to contain a whole pointer")
	// every git.Log whose output is parsed for pointers carries the table
	n := 0
	for _, fn := range p.RepoFuncs(func(s string) bool { return s == Mod+"/lfs" }) {
		parses := len(CallsIn(fn, "lfs.parseScannerLogOutput", "lfs.newLogScanner")) > 0
		if !parses {
			continue
		}
		for _, ci := range CallsIn(fn, "git.Log") {
			n++
			has := false
			for _, l := range p.LeavesNoFields(ci.Common().Args[0], nil) {
				if g, ok := l.(*ssa.Global); ok && g.Name() == "logLfsSearchArgs" {
					has = true
				}
			}
			// the first listing call in scanStashed (hash list) is not parsed for pointers
			if !has {
				parsedLater := false
				if call, ok := ci.(*ssa.Call); ok {
					for _, pc := range CallsIn(fn, "lfs.parseScannerLogOutput", "lfs.newLogScanner") {
						for _, a := range pc.Common().Args {
							if ResultOfCall(a, call, 0) {
								parsedLater = true
							}
						}
					}
				}
				if !parsedLater {
					continue
				}
			}
			c.Check(has, "R5", "parsed-log-uses-table:"+FnName(fn), p.InstrPos(ci), "arguments include logLfsSearchArgs", "a git log whose patch output is parsed for pointers does not use the hardened argument table")
		}
	}
	c.AtLeast("R5", "git log invocations parsed for pointers", n, 3)
	// stash range
	if ss := p.Fn("lfs", "scanStashed"); ss != nil {
		found := false
		for _, ci := range CallsIn(ss, "fmt.Sprintf") {
			f, ok := ConstString(ci.Common().Args[0])
			if !ok || !strings.Contains(f, "^") {
				continue
			}
			found = true
			els := variadicElems(ci.Common().Args[1])
			same := len(els) == 2 && Unwrap(els[0]) == Unwrap(els[1]) || len(els) == 1
			c.Check(stashRangeRE.MatchString(f) && same, "R5", "stash-range", p.InstrPos(ci), "each stash is scanned over <sha>^..<sha>: the WIP merge commit together with its index and untracked-files parents",
				"the revision range built for a stash is "+fmt.Sprintf("%q", f)+", not <sha>^..<sha>: the index and untracked-files commits of a stash (its other merge parents) are no longer walked, so objects only they reference are pruned")
		}
		if !found {
			// concatenation form
			for _, b := range ss.Blocks {
				for _, in := range b.Instrs {
					if bo, ok := in.(*ssa.BinOp); ok && bo.Op == token.ADD {
						if s, isC := ConstString(bo.Y); isC && strings.Contains(s, "^") {
							found = true
							c.Check(s == "^..", "R5", "stash-range", p.InstrPos(in), "range built as <sha>^..<sha>", "the stash revision range is built with "+fmt.Sprintf("%q", s)+" instead of \"^..\"")
						}
					}
				}
			}
		}
		c.Check(found, "R5", "stash-range:present", p.Pos(ss.Pos()), "stash range construction found", "cannot find the stash revision-range construction")
	} else {
		c.Missing("R5", "lfs.scanStashed", "not found")
	}
}

// c05Verify (R6)
func c05Verify(c *Ctx, prune *ssa.Function) {
	p := c.P
	fn := p.Fn("commands", "pruneGetVerifiedPrunableObjects")
	if fn == nil {
		c.Missing("R6", "commands.pruneGetVerifiedPrunableObjects", "not found")
		return
	}
	var verified, reachable, unreach *ssa.Parameter
	for _, prm := range fn.Params {
		switch prm.Name() {
		case "verifiedObjects":
			verified = prm
		case "reachableObjects":
			reachable = prm
		case "verifyUnreachable":
			unreach = prm
		}
	}
	loops := Loops(fn)
	n := 0
	for _, b := range fn.Blocks {
		for _, in := range b.Instrs {
			if !isAppendOf(in, "string") {
				continue
			}
			l := LoopOf(loops, b)
			if l == nil {
				continue
			}
			n++
			el := variadicElems(in.(*ssa.Call).Call.Args[1])
			contains := func(set *ssa.Parameter, want bool) []Edge {
				return PassEdges(fn, func(cond ssa.Value) (bool, bool) {
					cc, ok := cond.(*ssa.Call)
					if !ok || CalleeName(&cc.Call) != "(tools.StringSet).Contains" || set == nil || !SameVar(cc.Call.Args[0], set) {
						return false, false
					}
					if len(el) == 1 && !SameValue(cc.Call.Args[1], el[0]) {
						return false, false
					}
					return want, true
				})
			}
			flagOff := PassEdges(fn, func(cond ssa.Value) (bool, bool) {
				if unreach != nil && cond == ssa.Value(unreach) {
					return false, true
				}
				return false, false
			})
			// kept if verified, or (flag off and not reachable)
			viaVerified := contains(verified, true)
			notReach := contains(reachable, false)
			okA, _ := Guarded(l.Body, in, viaVerified, nil)
			okB1, _ := Guarded(l.Body, in, flagOff, nil)
			okB2, _ := Guarded(l.Body, in, notReach, nil)
			good := okA && len(viaVerified) > 0 || okB1 && okB2 && len(flagOff) > 0 && len(notReach) > 0
			c.Check(good, "R6", fmt.Sprintf("verified-prunable#%d", n), p.InstrPos(in), "an object stays prunable only if the remote verified it, or it is unreachable and unreachable objects are not verified", "an object can stay prunable although the remote did not verify it and it is reachable (or unreachable verification was requested)")
		}
	}
	c.AtLeast("R6", "appends to the verified-prunable list", n, 2)
	// verified set is filled only from the verify queue's Watch channel
	for _, f := range WithAnon(prune) {
		for _, ci := range CallsIn(f, "(tools.StringSet).Add") {
			cc := ci.Common()
			isVerified := false
			for _, l := range p.LeavesNoFields(cc.Args[0], nil) {
				if al, ok := l.(*ssa.Alloc); ok && al.Comment == "verifiedObjects" {
					isVerified = true
				}
			}
			if !isVerified {
				continue
			}
			lp := LoopOf(Loops(f), ci.Block())
			good := false
			if lp != nil && lp.Kind == "rangechan" {
				for _, l := range p.LeavesNoFields(lp.RangedOperand(), func(v ssa.Value) FlowAct {
					if wc, _, ok := CallResult(v); ok && CalleeName(wc.Common()) == "(*tq.TransferQueue).Watch" {
						return Stop
					}
					return Descend
				}) {
					if wc, _, ok := CallResult(l); ok && CalleeName(wc.Common()) == "(*tq.TransferQueue).Watch" {
						good = true
					}
				}
			}
			c.Check(good, "R6", "verified-set-source", p.InstrPos(ci), "the verified set is filled only with objects the verify queue delivered", "an oid is added to the verified set without having been delivered by the verify queue")
		}
	}
	// the prunable list is replaced by the verified one when verifying, and problems stop prune unless told to continue
	for _, ci := range CallsIn(prune, "commands.pruneGetVerifiedPrunableObjects") {
		call := ci.(*ssa.Call)
		used := false
		for _, r := range Referrers(call) {
			if ex, ok := r.(*ssa.Extract); ok && ex.Index == 0 && len(Referrers(ex)) > 0 {
				used = true
			}
		}
		c.Check(used, "R6", "verified-list-replaces-prunable", p.InstrPos(ci), "the verified list is what is deleted", "the result of the remote verification is not used as the prunable list")
	}
}

var c05Canaries = []Canary{
	{Name: "r7-recent-refs-heads-only", ExpectKey: "C05.R3#recent-refs:listed-from-all-of-refs", Edits: []Edit{{File: "git/git.go", Find: "// includeRemoteBranches: true to include refs on remote branches\n// onlyRemote: set to non-blank to only include remote branches on a single remote\nfunc RecentBranches(since time.Time, includeRemoteBranches bool, onlyRemote string) ([]*Ref, error) {\n\tcmd, err := gitNoLFS(\"for-each-ref\",\n\t\t`--sort=-committerdate`,\n\t\t`--format=%(refname) %(objectname) %(committerdate:iso)`,\n\t\t\"refs\")\n\tif err != nil {\n\t\treturn nil, errors.New(tr.Tr.Get(\"failed to find `git for-each-ref`: %v\", err))\n\t}\n", Repl: "// includeRemoteBranches: true to include refs on remote branches\n// onlyRemote: set to non-blank to only include remote branches on a single remote\nfunc RecentBranches(since time.Time, includeRemoteBranches bool, onlyRemote string) ([]*Ref, error) {\n\t// Only branches are of interest here, so do not make Git enumerate and\n\t// sort every tag, note and replace ref of the repository as well.\n\tpatterns := []string{\"refs/heads\"}\n\tif includeRemoteBranches {\n\t\tpatterns = append(patterns, \"refs/remotes\")\n\t}\n\tcmd, err := gitNoLFS(append([]string{\"for-each-ref\",\n\t\t`--sort=-committerdate`,\n\t\t`--format=%(refname) %(objectname) %(committerdate:iso)`},\n\t\tpatterns...)...)\n\tif err != nil {\n\t\treturn nil, errors.New(tr.Tr.Get(\"failed to find `git for-each-ref`: %v\", err))\n\t}\n"}}},
	{Name: "r7-worktree-line-fields", ExpectKey: "C05.R3#worktree-list", Edits: []Edit{{File: "git/git.go", Find: "\t\t\tcontinue\n\t\t}\n\n\t\tparts := strings.SplitN(scanner.Text(), \" \", 2)\n\n\t\t// We ignore other attributes such as \"locked\" for now.\n\t\tswitch parts[0] {\n", Repl: "\t\t\tcontinue\n\t\t}\n\n\t\t// Each attribute line is a keyword, optionally followed by a value.\n\t\tparts := strings.Fields(line)\n\n\t\t// We ignore other attributes such as \"locked\" for now.\n\t\tswitch parts[0] {\n"}}},
	{Name: "f17-unpushed-without-head", ExpectKey: "C05.R5", Edits: []Edit{{File: "lfs/gitscanner_log.go", Find: "\t\t\"--branches\", \"--tags\", // include all locally referenced commits\n\t\t\"--not\"} // but exclude everything that comes after\n\n\t// Commits made on a detached HEAD are on no branch, but they are\n\t// unpushed all the same.\n\tif _, err := git.ResolveRef(\"HEAD\"); err == nil {\n\t\tlogArgs = append([]string{\"HEAD\"}, logArgs...)\n\t}\n\n\tif len(remote) == 0 {\n\t\tlogArgs = append(logArgs, \"--remotes\")\n\t} else {\n", Repl: "\t\t\"--branches\", \"--tags\", // include all locally referenced commits\n\t\t\"--not\"} // but exclude everything that comes after\n\n\tif len(remote) == 0 {\n\t\tlogArgs = append(logArgs, \"--remotes\")\n\t} else {\n"}}},
	{Name: "r6-git-date-without-zone", ExpectKey: "C05.R5#git-date:numeric-zone", Edits: []Edit{{File: "git/git.go", Find: "\n// FormatGitDate converts a Go date into a git command line format date\nfunc FormatGitDate(tm time.Time) string {\n\t// Git format is \"Fri Jun 21 20:26:41 2013 +0900\" but no zero-leading for day\n\treturn tm.Format(\"Mon Jan 2 15:04:05 2006 -0700\")\n}\n\n// Get summary information about a commit\n", Repl: "\n// FormatGitDate converts a Go date into a git command line format date\nfunc FormatGitDate(tm time.Time) string {\n\t// Git accepts the format of date(1), \"Fri Jun 21 20:26:41 JST 2013\", for\n\t// which Go has a ready-made layout (no zero-leading for day either)\n\treturn tm.Format(time.UnixDate)\n}\n\n// Get summary information about a commit\n"}}},
	{Name: "r5-ls-tree-full-name", ExpectKey: "C05.R5#git.LsTree", Edits: []Edit{{File: "git/git.go", Find: "\t\t\"--full-tree\", // start at the root regardless of where we are in it", Repl: "\t\t\"--full-name\", // start at the root regardless of where we are in it"}}},
	{Name: "r5-worktree-heads-under-recent", ExpectKey: "C05.R3#checkout-retention-only-force", Edits: []Edit{{File: "commands/command_prune.go", Find: "\t\tif !fetchconf.PruneForce && commits.Add(worktree.Ref.Sha) {", Repl: "\t\tif !fetchconf.PruneRecent && commits.Add(worktree.Ref.Sha) {"}}},
	{Name: "r4-dry-run-transposed", ExpectKey: "C05.R1#dry-run-flag-reaches-prune", Edits: []Edit{{File: "commands/command_fetch.go", Find: "prune(fetchPruneCfg, verify, verifyUnreachable, false, fetchDryRunArg, fetchDryRunArg)", Repl: "prune(fetchPruneCfg, verify, verifyUnreachable, fetchDryRunArg, false, fetchDryRunArg)"}}},
	{Name: "dry-run-deletes", ExpectKey: "C05.R1#delete-gated-by-dry-run", Edits: []Edit{{File: "commands/command_prune.go", Find: "	if !dryRun {\n		pruneDeleteFiles(prunableObjects, logger)\n	}", Repl: "	if !dryRun || verbose {\n		pruneDeleteFiles(prunableObjects, logger)\n	}"}}},
	{Name: "inverted-contains", ExpectKey: "C05.R2", Edits: []Edit{{File: "commands/command_prune.go", Find: "		if !retainedObjects.Contains(file.Oid) {", Repl: "		if retainedObjects.Contains(file.Oid) {"}}},
	{Name: "add-four-start-five", ExpectKey: "C05.R3#taskwait-count", Edits: []Edit{{File: "commands/command_prune.go", Find: "	taskwait.Add(5) // 1..5", Repl: "	taskwait.Add(4) // 1..5"}}},
	{Name: "drop-error-report", ExpectKey: "C05.R4", Edits: []Edit{{File: "commands/command_prune.go", Find: "	err := gitscanner.ScanUnpushed(fetchconf.PruneRemoteName, func(p *lfs.WrappedPointer, err error) {\n		if err != nil {\n			errorChan <- err\n		} else {\n			retainChan <- p.Pointer.Oid\n			tracerx.Printf(\"RETAIN: %v unpushed\", p.Pointer.Oid)\n		}\n	})\n\n	if err != nil {\n		errorChan <- err\n		return\n	}", Repl: "	err := gitscanner.ScanUnpushed(fetchconf.PruneRemoteName, func(p *lfs.WrappedPointer, err error) {\n		if err != nil {\n			errorChan <- err\n		} else {\n			retainChan <- p.Pointer.Oid\n			tracerx.Printf(\"RETAIN: %v unpushed\", p.Pointer.Oid)\n		}\n	})\n\n	if err != nil {\n		tracerx.Printf(\"unpushed scan failed: %v\", err)\n		return\n	}"}}},
	{Name: "drop-no-textconv", ExpectKey: "C05.R5#log-arg(--no-textconv)", Edits: []Edit{{File: "lfs/gitscanner_log.go", Find: "		\"--no-textconv\",\n", Repl: ""}}},
	{Name: "drop-text-flag", ExpectKey: "C05.R5#log-arg(--text)", Edits: []Edit{{File: "lfs/gitscanner_log.go", Find: "		\"--text\",", Repl: "		\"--no-renames\","}}},
	{Name: "stash-parents-excluded", ExpectKey: "C05.R5#stash-range", Edits: []Edit{{File: "lfs/gitscanner_log.go", Find: "fmt.Sprintf(\"%v^..%v\", stashMergeSha, stashMergeSha)", Repl: "fmt.Sprintf(\"%v^!\", stashMergeSha)"}}},
	{Name: "subtask-not-counted", ExpectKey: "C05.R3#subtask", Edits: []Edit{{File: "commands/command_prune.go", Find: "			// Always scan the index of the worktree if it exists\n			waitg.Add(1)\n", Repl: "			// Always scan the index of the worktree if it exists\n"}}},
	{Name: "task-double-done", ExpectKey: "C05.R3#task-signs-off-once", Edits: []Edit{{File: "commands/command_prune.go", Find: "	headref, err := git.CurrentRef()\n		if err != nil {\n			errorChan <- err\n			return\n		}", Repl: "	headref, err := git.CurrentRef()\n		if err != nil {\n			errorChan <- err\n			waitg.Done()\n			return\n		}"}}},
	{Name: "extra-skip-condition", ExpectKey: "C05.R3#skip-condition", Edits: []Edit{{File: "commands/command_prune.go", Find: "		if !worktree.Prunable {", Repl: "		if !worktree.Prunable && len(allWorktrees) < 8 {"}}},
	{Name: "window-from-head", ExpectKey: "C05.R3#recent-window-per-ref", Edits: []Edit{{File: "commands/command_prune.go", Find: "			summ, err := git.GetCommitSummary(commit)", Repl: "			summ, err := git.GetCommitSummary(ref.Sha)"}}},
	{Name: "unverified-stays-prunable", ExpectKey: "C05.R6", Edits: []Edit{{File: "commands/command_prune.go", Find: "				if reachableObjects.Contains(oid) {\n					unverified.WriteString(fmt.Sprintf(\" * %v\\n\", oid))\n				} else {", Repl: "				if reachableObjects.Contains(oid) && len(oid) == 0 {\n					unverified.WriteString(fmt.Sprintf(\" * %v\\n\", oid))\n				} else {"}}},
}

// backEdges: edges x->h where h dominates x.
func backEdges(fn *ssa.Function) map[Edge]bool {
	m := map[Edge]bool{}
	for _, b := range fn.Blocks {
		for i, s := range b.Succs {
			if s.Dominates(b) {
				m[Edge{b, i}] = true
			}
		}
	}
	return m
}

// reachVia: blocks reachable through successor i of d without crossing the cut edges.
func reachVia(d *ssa.BasicBlock, i int, cut map[Edge]bool) map[*ssa.BasicBlock]bool {
	if cut[Edge{d, i}] {
		return map[*ssa.BasicBlock]bool{}
	}
	return ReachBlocks(d.Succs[i], cut, nil)
}

// ---- scanners stop only at the end of their input -------------------------------------------------------
// The retention scans (and every other history scan) read Git's output through small scanner types used as
// `for s.Scan() { ... }`. A Scan that answers false for an entry it merely wants to skip (a submodule line, a
// non-blob) ends the whole listing early: everything behind that entry is silently not seen — for prune, not
// retained. The rule: the value Scan returns is made only of the underlying scanner's own verdict, constants and
// error tests; a dependence on the parsed entry is allowed only at the sites frozen below.
var scanVerdictAllowed = map[string]string{
	"(*git.RevListScanner).Scan": "len(oid) > 0: rev-list output has no empty lines; scan() has already returned io.EOF at the end",
	"(*lfs.logScanner).scan":     "the log scanner returns a pointer per Scan and reports false only when its line scanner is exhausted (checked by the shape of scan())",
}

func scannerVerdictRule(c *Ctx, rule string) {
	p := c.P
	n := 0
	for _, fn := range p.RepoFuncs(productPkg) {
		if fn.Name() != "Scan" || fn.Signature.Recv() == nil || fn.Signature.Params().Len() != 0 || fn.Signature.Results().Len() != 1 {
			continue
		}
		if b, ok := fn.Signature.Results().At(0).Type().Underlying().(*types.Basic); !ok || b.Kind() != types.Bool {
			continue
		}
		n++
		var bad []string
		seen := map[ssa.Value]bool{}
		var walk func(v ssa.Value, owner *ssa.Function, depth int)
		walk = func(v ssa.Value, owner *ssa.Function, depth int) {
			if v == nil || seen[v] || depth > 8 {
				return
			}
			seen[v] = true
			switch x := v.(type) {
			case *ssa.Const:
				return
			case *ssa.Phi:
				for _, e := range x.Edges {
					walk(e, owner, depth+1)
				}
			case *ssa.UnOp:
				if x.Op == token.NOT {
					walk(x.X, owner, depth+1)
					return
				}
				if x.Op == token.MUL {
					// a result cell / field: follow the stores in the same function
					for _, d := range ReachingDefsAll(x.X, owner) {
						walk(d, owner, depth+1)
					}
					return
				}
			case *ssa.Extract:
				if call, ok := x.Tuple.(*ssa.Call); ok {
					walkCall(call, x.Index, owner, depth, walk, &bad, p)
					return
				}
			case *ssa.Call:
				walkCall(x, 0, owner, depth, walk, &bad, p)
				return
			case *ssa.BinOp:
				if isErrorish(x.X) || isErrorish(x.Y) {
					return // error test
				}
				if _, why := scanVerdictAllowed[FnName(owner)]; why {
					return
				}
				bad = append(bad, fmt.Sprintf("%s in %s (%s)", describeCond(x), FnName(owner), p.InstrPos(x)))
				return
			}
		}
		for _, r := range ReturnsOf(fn) {
			for _, v := range ReturnValues(r, 0) {
				walk(v, fn, 0)
			}
		}
		sort.Strings(bad)
		c.Check(len(bad) == 0, rule, "scanner-stops-only-at-end:"+FnName(fn), p.Pos(fn.Pos()), "Scan's verdict is the underlying reader's verdict (plus error tests)",
			"Scan can answer false depending on the entry just read ("+strings.Join(bad, "; ")+"): a `for s.Scan()` loop then stops at the first such entry and everything listed after it is never seen")
	}
	c.AtLeast(rule, "scanner types with Scan() bool", n, 5)
}

func isErrorish(v ssa.Value) bool {
	t := v.Type()
	if t.String() == "error" {
		return true
	}
	if ld, ok := v.(*ssa.UnOp); ok {
		if g, ok := ld.X.(*ssa.Global); ok && (g.Name() == "EOF" || strings.HasPrefix(g.Name(), "Err")) {
			return true
		}
	}
	return false
}

func walkCall(call *ssa.Call, idx int, owner *ssa.Function, depth int, walk func(ssa.Value, *ssa.Function, int), bad *[]string, p *Prog) {
	callee := call.Call.StaticCallee()
	name := CalleeName(&call.Call)
	if callee == nil || callee.Blocks == nil || callee.Pkg == nil || !productPkg(callee.Pkg.Pkg.Path()) {
		// the underlying reader (bufio.Scanner.Scan, pkt-line reads ...) or an interface call: its verdict
		if strings.HasSuffix(name, ".Scan") || strings.HasSuffix(name, ".Next") || strings.Contains(name, "Read") {
			return
		}
		if b, ok := call.Type().Underlying().(*types.Basic); ok && b.Kind() == types.Bool && idx == 0 {
			*bad = append(*bad, fmt.Sprintf("result of %s in %s", name, FnName(owner)))
		}
		return
	}
	for _, r := range ReturnsOf(callee) {
		for _, v := range ReturnValues(r, idx) {
			walk(v, callee, depth+1)
		}
	}
}

// ReachingDefsAll lists the values stored into the cell addr anywhere in fn (flow-insensitive).
func ReachingDefsAll(addr ssa.Value, fn *ssa.Function) []ssa.Value {
	var out []ssa.Value
	for _, b := range fn.Blocks {
		for _, in := range b.Instrs {
			if st, ok := in.(*ssa.Store); ok && (st.Addr == addr || SameVar(st.Addr, addr)) {
				out = append(out, st.Val)
			}
		}
	}
	return out
}

// c05VerifyNeedsAction (R6, second half): prune --verify-remote counts an object as verified when the dry-run
// download queue delivers it, and a dry-run queue delivers every transfer it hands to its adapter. So an object
// may be handed to the adapter only when the server offered a download action for it (or a standalone agent
// replaces the server): a bare {oid,size} answer — the server does not hold the object — must not reach it.
func c05VerifyNeedsAction(c *Ctx) {
	p := c.P
	fn := p.Fn("tq", "(*TransferQueue).enqueueAndCollectRetriesFor")
	if fn == nil {
		c.Missing("R6", "(*tq.TransferQueue).enqueueAndCollectRetriesFor", "not found")
		return
	}
	adds := CallsIn(fn, "(*tq.TransferQueue).addToAdapter")
	if len(adds) == 0 {
		c.Missing("R6", "addToAdapter call in enqueueAndCollectRetriesFor", "not found")
		return
	}
	// the appends that build the list handed to the adapter
	var appends []*ssa.Call
	for _, ad := range adds {
		args := CallArgs(ad.Common())
		for _, l := range p.LeavesNoFields(args[len(args)-1], func(v ssa.Value) FlowAct {
			if cc, ok := v.(*ssa.Call); ok {
				if bi, ok := cc.Call.Value.(*ssa.Builtin); ok && bi.Name() == "append" {
					return Stop
				}
			}
			return Descend
		}) {
			if cc, ok := l.(*ssa.Call); ok {
				if bi, ok := cc.Call.Value.(*ssa.Builtin); ok && bi.Name() == "append" {
					appends = append(appends, cc)
				}
			}
		}
	}
	if !c.AtLeast("R6", "appends to the list handed to the adapter", len(appends), 1) {
		return
	}
	pass := PassEdges(fn, func(cond ssa.Value) (bool, bool) {
		if e, trueMeansNil, ok := IsErrNilCheck(cond); ok {
			if cc, idx, isRes := CallResult(e); isRes && idx == 0 && CalleeName(cc.Common()) == "(*tq.Transfer).Rel" {
				return !trueMeansNil, true
			}
		}
		if op, x, y, ok := BinCmp(cond); ok && (op == token.EQL || op == token.NEQ) {
			for _, pr := range [][2]ssa.Value{{x, y}, {y, x}} {
				if _, f, _, isF := FieldOf(pr[0]); isF && f == "standaloneTransferAgent" {
					if s, isC := ConstString(pr[1]); isC && s == "" {
						return op == token.NEQ, true
					}
				}
			}
		}
		return false, false
	})
	loops := Loops(fn)
	for i, ac := range appends {
		entry := fn.Blocks[0]
		if l := LoopOf(loops, ac.Block()); l != nil {
			entry = l.Body
		}
		g, path := Guarded(entry, ac, pass, nil)
		c.Check(g && nonVacuous(pass), "R6", fmt.Sprintf("adapter-needs-action#%d", i), p.InstrPos(ac), "an object is handed to the adapter only with an action for this operation (or a standalone agent)",
			"an object for which the server offered no action can be handed to the adapter; the dry-run queue of `prune --verify-remote` reports it as verified, so an object the remote does not hold is pruned: "+path)
	}
}

// c05IndexOfWorktree (R3, worktree indexes): the index scan of prune runs once per worktree. Both diff-index passes
// (--cached for what is staged, and the plain one) have to run in that worktree's directory — each linked worktree
// has an index of its own. Decided on git.DiffIndex: the `-C <dir>` prefix is added under a test of the directory
// argument alone, not under the cached flag.
func c05IndexOfWorktree(c *Ctx) {
	p := c.P
	fn := p.Fn("git", "DiffIndex")
	if fn == nil {
		c.Missing("R3", "git.DiffIndex", "not found")
		return
	}
	var cached *ssa.Parameter
	for _, prm := range fn.Params {
		if prm.Name() == "cached" {
			cached = prm
		}
	}
	n := 0
	for _, b := range fn.Blocks {
		for _, in := range b.Instrs {
			// the slice literal {"-C", workingDir}
			st, ok := in.(*ssa.Store)
			if !ok {
				continue
			}
			if s, isC := ConstString(st.Val); !isC || s != "-C" {
				continue
			}
			n++
			bad := ""
			for _, dc := range decidingConds(fn, b) {
				for _, l := range p.LeavesNoFields(dc.Cond, nil) {
					if cached != nil && l == ssa.Value(cached) {
						bad = describeCond(dc.Cond)
					}
				}
			}
			c.Check(bad == "", "R3", "diff-index-runs-in-the-worktree", p.InstrPos(in), "`-C <worktree>` is added whenever a directory is given", "whether diff-index runs in the worktree's directory depends on the --cached flag ("+bad+"): the staged files of a linked worktree are read from the wrong index and their objects are not retained")
		}
	}
	c.AtLeast("R3", "`-C` prefix sites in DiffIndex", n, 1)
	// and the retention task hands the worktree directory down
	if rt := p.Fn("commands", "pruneTaskGetRetainedIndex"); rt != nil {
		ok := false
		for _, ci := range CallsInDeep(rt, "(*lfs.GitScanner).ScanIndex") {
			args := CallArgs(ci.Common())
			for _, a := range args {
				for _, l := range p.LeavesNoFields(a, nil) {
					if prm, isP := l.(*ssa.Parameter); isP && short(prm.Type().String()) == "string" && strings.Contains(strings.ToLower(prm.Name()), "dir") {
						ok = true
					}
					if _, f, _, isF := FieldOf(l); isF && f == "Dir" {
						ok = true
					}
				}
			}
		}
		c.Check(ok, "R3", "index-scan-gets-worktree-dir", p.Pos(rt.Pos()), "the index scan is told which worktree to look at", "the index retention task does not pass the worktree directory to the index scan")
	}
}
